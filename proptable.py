"""Property table: which harness group/binary and sub-harnesses decide each
property, tier sizes, evidence texts."""

SCHED_RULE = ("one evaluation = one simulated run (own synctest bubble, own tape derived from VERIF_SEED, harness name and run index). "
              "distinct_nontrivial = number of distinct event-log hashes (every scheduler pick, select rotation, spawn, time jump, fault and fs-op folded in) among runs "
              "that had >= 2 context switches AND in which the property's oracle was evaluated at least once on non-empty data; deduplicated across workers.")

COMMON_ASSUME = [
    "code between two yield points runs atomically; yield points are all sync/atomic/channel/select/os operations of the instrumented packages plus function entries in search, indexserver and grpc/server",
    "simulated sync primitives are more permissive than Go's (no FIFO hand-off, no writer preference)",
    "a clean batch is evidence, not proof: schedules and faults are sampled by seed",
]

S_COMPONENTS = {"real": ["search (instrumented copy)", "index (instrumented copy)", "x/sync/semaphore (instrumented copy)", "query", "context", "time (synctest fake clock)"],
                "stub": ["goroutine scheduling decisions", "sync/atomic primitives (simulated, same semantics)", "wall clock", "fsnotify (simfsn)", "prometheus metrics run atomically"]}

GROUPS = ["search"]

PROPS = {
    "C20": dict(
        group="search", level="exploration", rule=SCHED_RULE,
        harnesses=[dict(name="C20", quick=48000, thorough=1500000, quick_deadline_s=150, thorough_deadline_s=1500)],
        expect_probes=["yield-to-batch-failed", "cancel-while-queued", "moved-to-batch"],
        components=S_COMPONENTS, assumptions=COMMON_ASSUME,
        technique="deterministic simulation: seeded schedule + fake-clock exploration of the real multiScheduler with a per-step slot-accounting invariant against a client-phase model",
        level_text="Seeded exploration of interleavings of acquire / yield-after-time-slice / cancel / deadline / release for 2-8 searches on the real multiScheduler and an instrumented copy of x/sync/semaphore, capacities 1-4, all batch divisors, time slices 1ms-5s; after every scheduler step the semaphores' occupancy is checked against the interval implied by each client's phase (no slot unaccounted, none double-released, capacity never exceeded), errors only with a done context, and at the end no slot is leaked (capacity fresh acquisitions succeed; a leak shows up as deadlock).",
        level_note="Samples schedules (not exhaustive). Trusts the simulated Mutex/select semantics and synctest's fake clock. Batch capacity is computed from the documented rule max(1, capacity/batchdiv).",
    ),
}
