"""Property table: which harness group/binary and sub-harnesses decide each
property, tier sizes, evidence texts."""

SCHED_RULE = ("one evaluation = one simulated run (own synctest bubble, own tape derived from VERIF_SEED, harness name and run index). "
              "distinct_nontrivial = number of distinct event-log hashes (every scheduler pick, select rotation, spawn, time jump, fault and fs-op folded in) among runs "
              "that had >= 2 context switches AND in which the property's oracle was evaluated at least once on non-empty data; deduplicated across workers.")

COMMON_ASSUME = [
    "code between two yield points runs atomically; yield points are all sync/atomic/channel/select/os operations of the instrumented packages plus function entries in search, indexserver and grpc/server",
    "simulated sync primitives are more permissive than Go's (no FIFO hand-off, no writer preference)",
    "a clean batch is evidence, not proof: schedules and faults are sampled by seed",
]

S_COMPONENTS = {"real": ["search (instrumented copy)", "index (instrumented copy)", "x/sync/semaphore (instrumented copy)", "query", "context", "time (synctest fake clock)"],
                "stub": ["goroutine scheduling decisions", "sync/atomic primitives (simulated, same semantics)", "wall clock", "fsnotify (simfsn)", "prometheus metrics run atomically"]}

I_COMPONENTS = {"real": ["cmd/zoekt-sourcegraph-indexserver Queue, backoff, indexMutex (instrumented copy)", "container/heap", "time (synctest fake clock)"],
                "stub": ["goroutine scheduling decisions", "sync primitives (simulated)", "Sourcegraph frontend, Server.Run loop and the indexer child processes are not part of any run"]}

B_COMPONENTS = {"real": ["index.Builder (Add/flush/buildShard/writeShard/Finish)", "ShardBuilder.Write", "index.SetTombstone/JsonMarshalRepoMetaTemp", "index.Merge/Explode", "search.NewDirectorySearcher as the observer", "real files in a private tmpfs directory"], "stub": ["os.* of the instrumented packages (simos: counts, fails, or kills the process at every operation)", "Parallelism=1 (no builder goroutines) in the enumerating harnesses"]}
ENUM_ASSUME = ["kill = kill -9: completed system calls persist, nothing afterwards happens, deferred cleanup has no effect; power loss (lost page cache) is not modelled because zoekt never fsyncs", "crash/failure points are enumerated exhaustively per sampled scenario; scenarios are sampled by seed"]

G_COMPONENTS = {"real": ["gitindex.IndexGitRepo (go-git tree walking, prepareDeltaBuild/prepareNormalBuild, git cat-file --batch child process)", "index.Builder, tombstone sidecars", "a real git repository driven by the git CLI (git 2.39)", "search.NewDirectorySearcher as observer"], "stub": ["os.* and os/exec of the instrumented packages (simos, simexec)"]}

SYNC_RULE = ("one run = one generated history of 3-8 steps over 2-3 root directories with real git repositories (non-bare, bare, nested paths, root-level, nested in a worktree, same name in two roots) and one index directory: create/delete/rename/move/commit, foreign shards, and `sync` / `sync -f` / `remove SEL` / `remove -f SEL` through execute() as a simulated process. evaluations = commands executed and judged; distinct_nontrivial = distinct history prefixes (hashed) at which a command was judged.")
SYNC_COMPONENTS = {"real": ["cmd/zoekt-local-sync execute/runSync/runRemove, discoverRepositories, planPrune, applyRemovals, indexRepositories, selectRecords (instrumented copy)", "gitindex.IndexGitRepo incl. DryRun, index.Builder, IndexState", "real git repositories created with the git CLI", "search.NewDirectorySearcher and index.ReadMetadataPathAlive as observers"],
                   "stub": ["os.* of the instrumented packages (simos: operation log, injected EIO, kill points)", "flock is real (one command at a time)"]}
SYNC_ASSUME = ["kill = kill -9 (completed system calls persist)", "histories are sampled by seed; -branches is left at its default (HEAD)"]

GROUPS = ["search", "ixserver", "grpcsim", "buildsim", "mergesim", "gitsim", "syncsim"]

PROPS = {
    "C20": dict(
        group="search", level="exploration", rule=SCHED_RULE,
        harnesses=[dict(name="C20", quick=48000, thorough=1500000, quick_deadline_s=150, thorough_deadline_s=1500)],
        expect_probes=["yield-to-batch-failed", "cancel-while-queued", "moved-to-batch", "yield-retried-after-failure"],
        components=S_COMPONENTS, assumptions=COMMON_ASSUME,
        technique="deterministic simulation: seeded schedule + fake-clock exploration of the real multiScheduler with a per-step slot-accounting invariant against a client-phase model",
        level_text="Seeded exploration of interleavings of acquire / yield-after-time-slice / cancel / deadline / release for 2-8 searches on the real multiScheduler and an instrumented copy of x/sync/semaphore, capacities 1-4, all batch divisors, time slices 1ms-5s; after every scheduler step the semaphores' occupancy is checked against the interval implied by each client's phase (no slot unaccounted, none double-released, capacity never exceeded), errors only with a done context, and at the end no slot is leaked (capacity fresh acquisitions succeed; a leak shows up as deadlock).",
        level_note="Samples schedules (not exhaustive). Trusts the simulated Mutex/select semantics and synctest's fake clock. Batch capacity is computed from the documented rule max(1, capacity/batchdiv).",
    ),
    "C31": dict(
        group="ixserver", level="exploration", rule=SCHED_RULE,
        harnesses=[dict(name="C31", quick=40000, thorough=2000000, quick_deadline_s=150, thorough_deadline_s=1500)],
        expect_probes=["with-skipped-busy"],
        components=I_COMPONENTS, assumptions=COMMON_ASSUME,
        technique="deterministic simulation: seeded schedule exploration of the real indexMutex with per-step occupancy invariants and deadlock detection",
        level_text="Seeded exploration of interleavings of 2-6 goroutines issuing repository-scoped With(repo,f) and Global(f) operations on the real indexMutex (simulated RWMutex/Mutex under the baton scheduler); f yields 0-3 times inside; after every scheduler step: at most one f per repository, a global f excludes everything else; With's return value equals whether f ran; a skip is only accepted if another With for that repository was in progress during the call; all calls return (deadlock detection).",
        level_note="Samples schedules. The simulated RWMutex has no writer preference, which only adds schedules. Occupancy counters are maintained by the harness's f bodies.",
    ),
    "C30": dict(
        group="ixserver", level="exploration",
        rule="sequential sub-mode: one evaluation = one generated operation history (3-40 operations on <=5 repository ids with fake-clock advances) executed on the real Queue and compared step by step with the reference model; distinct = distinct histories (hash of the operation/result list) with >=3 operations. concurrent sub-mode: one evaluation = one simulated run of 2-3 clients (<=24 operations), the recorded invoke/return history (stamped with scheduler step numbers) is checked with porcupine against the nondeterministic model; distinct = distinct schedule hashes with >=2 context switches whose porcupine verdict was definite.",
        harnesses=[dict(name="C30", quick=30000, thorough=1500000, quick_deadline_s=120, thorough_deadline_s=900),
                   dict(name="C30/conc", quick=20000, thorough=800000, quick_deadline_s=120, thorough_deadline_s=900)],
        components=I_COMPONENTS, assumptions=COMMON_ASSUME + ["the reference model is written from the doc comments of queue.go/backoff.go; MaybeRemoveMissing may skip only when the tracked count equals the listed count (documented heuristic)", "concurrent sub-mode freezes the clock (backoff after a failure lasts until reset) so that linearization does not depend on time"],
        technique="deterministic simulation: generated operation/clock histories against an executable reference model; concurrent histories checked for linearizability with porcupine",
        level_text="Generated histories of AddOrUpdate/Pop/Len/Bump/SetIndexed(success|fail)/MaybeRemoveMissing over <=5 repository ids (including ids the queue never saw), with fake-clock advances across the backoff periods, run on the real Queue and compared operation by operation (and by a final drain) with a small priority-queue model; plus 2-3 concurrent clients under the seeded scheduler whose invoke/return history must be linearizable w.r.t. the nondeterministic model (porcupine, 20 s timeout, Unknown never reported).",
        level_note="Samples histories and schedules. The model encodes the documented ordering key (not indexed first, non-failed first, FIFO), backoff = min(max, n*duration), removal keyed by repository id.",
    ),
    "C18": dict(
        group="search", level="exploration", rule=SCHED_RULE,
        harnesses=[dict(name="C18", quick=16000, thorough=600000, quick_deadline_s=170, thorough_deadline_s=1500)],
        components=S_COMPONENTS, assumptions=COMMON_ASSUME + ["claim limited to conservation through fan-out/fan-in under the explored schedules; the algebra of repository pre-selection is exercised by generated queries but its input space is not the object of the claim", "(type:repo q) is given the reference meaning 'repositories with a document matching q in any shard', computed with Search per shard"],
        technique="deterministic simulation: seeded schedule exploration of the real shardedSearcher fan-out/fan-in, self-differential against per-shard sequential answers",
        level_text="Seeded exploration of 1-3 concurrent Search/StreamSearch/List calls on the real shardedSearcher+typeRepoSearcher over 12 generated corpora (simple, compound and split shards; 4-6 repositories) with worker-pool width 1-16 and scheduler capacity 1-4; every answer must equal, as a multiset of normalised file matches, the union over shards of the same query run alone on a freshly loaded copy of each shard; listings must contain each repository once with statistics summed over its shards.",
        level_note="Samples schedules and queries. Reference = the same index.Search/List code run sequentially per shard (self-differential), so a bug shared by both sides is invisible.",
    ),
    "C04": dict(
        group="search", level="exploration", rule=SCHED_RULE + " Sequential single-client histories (one third of the runs) count as non-trivial when they contain >= 2 answered calls with a non-empty reference.",
        harnesses=[dict(name="C04", quick=12000, thorough=500000, quick_deadline_s=170, thorough_deadline_s=1500)],
        components=S_COMPONENTS, assumptions=COMMON_ASSUME + ["reference = each query run alone on a freshly loaded, cache-less copy of every shard (self-differential)"],
        technique="deterministic simulation: seeded histories and interleavings of searches on one loaded searcher (match-tree cache off/1/2/8/64, map-order eviction from the tape), self-differential against fresh searchers",
        level_text="1-4 clients issue 2-6 searches/streams/listings each from a small query pool biased to repeat metadata atoms, sequentially and concurrently, against one shardedSearcher loaded with ZOEKT_DOCMATCHTREE_CACHE unset/1/2/8/64 (cache eviction order = map order, drawn from the tape); every answer (files, matches, branches, scores) must equal the answer of the same query run alone on freshly loaded shards without cache; no panic, Stats.Crashes == 0.",
        level_note="Samples histories/schedules over 12 generated corpora; query space sampled from a small grammar.",
    ),
    "C21": dict(
        group="search", level="exploration", rule=SCHED_RULE,
        harnesses=[dict(name="C21", quick=14000, thorough=600000, quick_deadline_s=170, thorough_deadline_s=1500)],
        expect_probes=["cancelled-in-flight", "returned-ctx-error", "files-removed-by-limit-or-cancel"],
        components=S_COMPONENTS, assumptions=COMMON_ASSUME + ["promptness is only judged in runs without time jumps and with zero-cost steps, where simulated time can only pass if the cancelled call itself waits on a timer"],
        technique="deterministic simulation: seeded schedules with cancellation/deadline injected at arbitrary scheduling points on the fake clock, self-differential against the unlimited uncancelled per-shard answers",
        level_text="1-3 concurrent Search/StreamSearch calls with shard/repo/total match limits from {0,1,2,5,1000}, cancellation by a canceller task at an arbitrary scheduling point, context deadlines and MaxWallTime on the fake clock (steps cost 0, 100us or 1ms of simulated time); every returned file must be identical (matches, branches) to a file of the unlimited, uncancelled reference; a call may fail only with the context's error and only if it was cancellable; never a panic or crash count; a cancelled call returns without waiting for any timer.",
        level_note="Samples schedules, limits and cancellation points; reference is per-shard sequential search (self-differential).",
    ),
    "C22": dict(
        group="search", level="exploration", rule=SCHED_RULE,
        harnesses=[dict(name="C22", quick=14000, thorough=600000, quick_deadline_s=170, thorough_deadline_s=1500)],
        expect_probes=["file-cut-at-limit", "truncated-by-display-limit"],
        components=S_COMPONENTS, assumptions=COMMON_ASSUME + ["ranking is compared up to score ties and the documented promotion of one novel-extension file into third place", "streaming results are only required to be ranked inside each event"],
        technique="deterministic simulation: seeded schedules (worker width, flush timer vs. results races on the fake clock) of display-limited Search/StreamSearch, self-differential against the unlimited per-shard answers",
        level_text="1-2 clients issue Search/StreamSearch with MaxDocDisplayCount/MaxMatchDisplayCount from {0,1,2,3,5/7,100}, line and chunk mode, 0-2 context lines, default and BM25 scoring, FlushWallTime 0..500ms racing the results; checked per answer: limits respected, every returned file is a leading-match prefix of the same file in the unlimited result with the same score, only the last file is cut and only when the match limit is exactly exhausted, a shortened chunk is whole lines covering its remaining ranges plus context (recomputed from the document text), nothing is missing unless a limit is exhausted, non-streaming results are the top of the unlimited ranking (up to ties and the single promotion), each stream event is ranked.",
        level_note="Samples schedules, limits and queries on 12 generated corpora.",
    ),
    "C29": dict(
        group="search", level="exploration", rule=SCHED_RULE + " A run is non-trivial only if at least two answers with more than one file were compared.",
        harnesses=[dict(name="C29", quick=10000, thorough=400000, quick_deadline_s=170, thorough_deadline_s=1500)],
        components=S_COMPONENTS, assumptions=COMMON_ASSUME + ["claim limited to schedule/worker-width/map-order/DebugScore independence of the ranking and the order invariants on what the simulation produces; the scoring arithmetic over all inputs is not claimed (input space)"],
        technique="deterministic simulation: the same search issued repeatedly by 2-4 concurrent clients under seeded schedules, worker widths and map-iteration orders; rankings compared with each other and against order invariants",
        level_text="One (query, options) pair per run is issued 2-12 times by 2-4 concurrent clients (worker width 1-16, scheduler capacity 1-4, map iteration order from the tape, DebugScore on and off, default and BM25 scoring, line and chunk mode); every answer must have finite scores, matches ordered by non-increasing score inside each file, files ordered by non-increasing score except the single novel-extension promotion into third place, and all answers must agree on the file->score map and on the score at every rank (order may differ only among equal scores).",
        level_note="Samples schedules; comparison is among answers of the same run (self-differential).",
    ),
    "C19": dict(
        group="search", level="exploration", rule=SCHED_RULE + " Non-trivial additionally requires >= 2 published shard-set snapshots during the run.",
        harnesses=[dict(name="C19", quick=4000, thorough=250000, quick_deadline_s=120, thorough_deadline_s=1200, crash_is_violation=True),
                   dict(name="C19/gc", quick=1200, thorough=60000, quick_deadline_s=90, thorough_deadline_s=900, crash_is_violation=True, env={"VERIF_GCOFF": "1", "VERIF_MEMLIMIT_MB": "6000"})],
        expect_faults=["dropped", "delayed", "duplicated", "overflow"],
        components={"real": ["search.DirectoryWatcher scan/watch", "loader", "shardedSearcher.replace/getLoaded/Search/StreamSearch/List", "index shard reader on real mmap'ed files in a tmpfs directory", "index.SetTombstone/UnsetTombstone"], "stub": ["fsnotify (simfsn: drop/delay/duplicate/overflow)", "goroutine scheduling", "sync/atomic primitives", "wall clock (file mtimes come from the fake clock)", "the indexer is a harness task that writes prepared shard images by temp-file+rename through simos"]},
        assumptions=COMMON_ASSUME + ["A-mtime: two versions of one shard path never get the same mtime (the simulated indexer advances the fake clock >= 1 ms between changes)", "gc sub-mode: GOGC is off and the collector runs only at scheduler-chosen points, each followed by a finalizer drain (replaced shards that nothing references are closed = unmapped there); a use-after-unmap shows up as a reproducible worker crash (SIGSEGV) or as bytes of another shard in a result, both reported as violations; the set of finalizers run at a GC point was deterministic in all self-tests, should that ever not hold the replay confirmation fails and the run is reported as a harness error, not a verdict", "the plain sub-mode leaves GC timing to the runtime"],
        technique="deterministic simulation: seeded schedules of a simulated indexer process changing a real directory (create/replace by rename, delete, tombstone sidecars) against the real watcher+loader+sharded searcher with injected notification loss/delay/duplication/overflow on a fake clock; every answer linearised to one published shard-set snapshot; bounded-liveness convergence check",
        level_text="A simulated indexer performs 1-8 directory changes (new shard version by temp+rename, delete, set/unset tombstone sidecar of a compound shard) at fake-clock instants while 1-3 clients search/stream/list and fsnotify events are dropped, delayed up to 90 s, duplicated or turned into overflow errors. Checked: each answer equals exactly the documents of the repository versions in ONE shard-set snapshot that was published during the call (never two versions of a path, never a half-applied replace, each version complete); published snapshots only hold versions that were complete on disk, one per repository; no panic/corrupt result/crash count after the initial load; and within 61 simulated seconds after the last change (faults stopped) the loaded set equals the live repositories on disk and a search agrees.",
        level_note="Samples schedules/histories. Worker processes that die (e.g. SIGSEGV from a shard unmapped while in use) are re-run run-by-run and a reproducible death is a violation.",
    ),
    "C23": dict(
        group="search", level="exploration", rule=SCHED_RULE,
        harnesses=[dict(name="C23", quick=12000, thorough=500000, quick_deadline_s=170, thorough_deadline_s=1500)],
        components=S_COMPONENTS, assumptions=COMMON_ASSUME + ["claim limited to the isolation invariant on every response under concurrent mixed-tenant traffic; the query input space is sampled, not enumerated", "strict enforcement is switched on through internal/tenant/tenanttest.MockEnforce"],
        technique="deterministic simulation: concurrent mixed-tenant Search/StreamSearch/List under seeded schedules over shards mixing tenants, with an isolation invariant evaluated on every response",
        level_text="Strict tenant enforcement; 12 corpora (plus their variants in which tenants 1 and 2 each own a repository of the same name) whose compound shards mix repositories of tenants 1 and 2; match limits (ShardRepoMaxMatchCount, ShardMaxMatchCount, TotalMaxMatchCount) on a third of the calls; 1-4 concurrent clients issue generated queries (repository filters, type:repo, content) as tenant 1, tenant 2, without tenant or as the system context. Every response is checked: no file match (by repository id), list entry, ReposMap id, RepoURLs/LineFragments URL template of a repository the caller does not own (nothing at all for a tenant-less caller); the caller's own results equal the per-shard reference restricted to its repositories; the system context sees everything.",
        level_note="Samples schedules and queries on static shard sets.",
    ),
    "C25": dict(
        group="grpcsim", level="exploration",
        rule="one evaluation = one generated history of 0-250 produced results (stats-only events incl. single overlooked counters, events with 1-6 files, files of 300 KiB/600 KiB/>1 MiB) pushed through the real Server.StreamSearch -> samplingSender -> gRPCChunkSender -> chunk.SendAll into a simulated stream; a quarter of the runs make Send fail from a fault-stream-chosen message on. distinct_nontrivial = distinct event-log hashes (producer/transport steps, sizes, fault point) among runs with >= 2 produced files and >= 2 delivered messages.",
        harnesses=[dict(name="C25", quick=16000, thorough=400000, quick_deadline_s=170, thorough_deadline_s=1500),
                   dict(name="C25/flush", group="search", quick=20000, thorough=600000, quick_deadline_s=100, thorough_deadline_s=1200)],
        expect_faults=["send-error"],
        components={"real": ["cmd/zoekt-webserver/grpc/server Server.StreamSearch, samplingSender, gRPCChunkSender", "search.newFlushCollectSender/collectSender incl. its timer goroutine (C25/flush, under the scheduler)", "grpc/chunk Chunker", "api_proto conversions", "google.golang.org/protobuf"], "stub": ["the result source is a stub zoekt.Streamer emitting generated event sequences (the real sharded searcher is exercised by C18/C21/C22)", "gRPC transport: direct handler call with a recording stream that can fail"]},
        assumptions=["the produced sequence is single-threaded (zoekt.Sender is not required to be thread-safe below flushCollectSender)", "statistics counters = the fields Stats.Add sums (Duration and FlushReason are not additive)"],
        technique="deterministic simulation: generated result histories and injected transport errors through the real gRPC streaming pipeline, conservation checks on the recorded message history",
        level_text="Generated result histories through the real streaming pipeline into a recording transport: delivered files are exactly the produced files in order, once (a prefix when the transport fails, never duplicated); a message with more than one file stays below 1 MiB of encoded file matches and 4 MiB in total; on successful completion every statistics counter summed over delivered messages equals the sum over produced results (never more under faults). Second sub-harness (C25/flush, package search): the real newFlushCollectSender under the seeded scheduler with the FlushWallTime timer goroutine racing the producer on the fake clock and a downstream sender that takes simulated time: every produced file and statistics counter reaches the downstream sender exactly once, all before the final flush returns, and the (not thread-safe) downstream sender is never entered by two goroutines at once.",
        level_note="Samples histories and fault points; no concurrency inside this pipeline, so the schedule dimension is trivial here.",
    ),
    "C11": dict(
        group="search", level="exploration",
        rule="one evaluation = one directory of healthy shards plus 1-2 corrupted copies of other repositories' shards (fault stream: truncation, bit flip, zeroed 4 KiB page, garbage block, scaled/incremented 32-bit field, byte set, maximal varint, swapped halves; positions biased to header, table of contents and the last 4 KiB; optional garbled .meta sidecar), loaded with the real directory searcher and queried 6 times. distinct_nontrivial = distinct (corpus, corruption list) hashes among cases in which at least one query had a non-empty reference over the healthy shards. Sweep sub-mode: one run = one (corpus shard, fault kind) pair with the fault applied at EVERY byte position of the 1-4 KiB shard image in turn (truncation; each of the 8 single-bit flips; byte := 00/7f/80/ff; 5-byte varints 2^32-1, 2^32-2, 2^31; big-endian 0xfffffff0), each damaged copy loaded with the real loadShard (mmap) next to a healthy shard and searched (8 queries) and listed; evaluations count every search/list call.",
        harnesses=[dict(name="C11", quick=12000, thorough=600000, quick_deadline_s=120, thorough_deadline_s=1200, crash_is_violation=True, no_det=True, grace_s=420),
                   dict(name="C11/sweep", quick=40, thorough=4000, quick_deadline_s=100, thorough_deadline_s=1200, crash_is_violation=True, no_det=True, grace_s=300, env={"VERIF_MIN_S": "0"})],
        expect_faults=["truncate", "bitflip", "zero-page", "garbage-block", "u32-scale", "byte-set", "swap-halves", "varint-huge", "meta-sidecar"],
        components={"real": ["search.NewDirectorySearcher (watcher scan, loader goroutines, loadShard)", "index shard reader on real mmap'ed corrupted files", "shardedSearcher Search/List with its recover"], "stub": ["fsnotify (simfsn, idle here)", "the corruption is applied to stored bytes before the loader sees them; files are not modified after being loaded"]},
        assumptions=["runs outside the scheduler (real goroutines): corruption handling is not schedule dependent; the fault dimension is the stored-byte fault stream", "workers run under ulimit -v (8 GB): a fatal out-of-memory error is a crash of the serving process", "a case that does not finish within 60 s of real time is a hang"],
        technique="deterministic fault injection: seeded stored-byte corruption (truncation, bit flips, torn pages, garbage, size-field damage) of shard files and sidecars before the real loader, with process-death and hang detection and self-differential answers for the healthy shards",
        level_text="Seeded stored-byte faults on shard files next to healthy shards; the real loader/searcher must survive (a worker that dies from an unrecovered panic, fatal OOM under ulimit or a signal is re-run case by case in fresh processes and a reproducible death is the violation, with the crashing zoekt function as its signature), every call must return within the watchdog, and searches/listings must return exactly the reference results for repositories of the healthy shards.",
        level_note="Samples corruption kinds/positions on 12 small corpora (shards of 1-4 KiB, so a large fraction of positions hits structural bytes).",
    ),
    "C12": dict(
        group="buildsim", level="fault_enumeration",
        rule="one run = one sampled scenario (old index of 1-5 documents in 1-4 shards or inside a compound shard; new full, delta or shard-merging build with changed/removed/added documents, optionally new repository metadata). evaluations = executions: the recorded fault-free build plus, for EVERY file-system operation k of that build: kill before k (mutating ops), kill in the middle of k (writes), fail k with EIO. distinct_nontrivial = distinct (scenario, fault kind, k, resulting directory class) tuples.",
        harnesses=[dict(name="C12", workers=4, quick=48, thorough=6000, quick_deadline_s=170, thorough_deadline_s=1500, ulimit_kb=24000000, env={"VERIF_GCPERCENT": "50", "VERIF_MEMLIMIT_MB": "2048"})],
        expect_faults=["kill", "kill-in-write", "fail-rename", "fail-createtemp", "fail-write", "fail-remove"],
        components=B_COMPONENTS, assumptions=ENUM_ASSUME,
        technique="deterministic fault enumeration: every file-system operation of a recorded index build is replayed as a kill point and as an I/O error point on the simulated disk; the resulting directory is judged old/new/mixed/unloadable by a fresh searcher",
        level_text="For each sampled scenario the real index.Builder run (replacing an existing index with more, fewer or equally many shards; delta builds that rewrite metadata sidecars; builds that tombstone the repository inside a compound shard) is executed once fault free (and must equal the document model), then once per kill point and per failing operation. After each execution a freshly started directory searcher must see exactly the old or exactly the new index of the repository (documents, contents, versions, branches, metadata), every *.zoekt file must load, other repositories must be untouched, and a run that completed with Finish()==nil must have installed the new index.",
        level_note="Exhaustive over the operations of each sampled scenario, sampled over scenarios. The inherent non-atomicity of installing several files (kill strictly between the first install rename and the end of the clean-up) is a recorded known finding with its own signature class; every other deviation is reported.",
    ),
    "C17": dict(
        group="buildsim", level="fault_enumeration",
        rule="one run = one compound shard of 2-5 repositories and a history of 3-10 operations (set / unset tombstone for known and unknown repository ids, file tombstone written into the sidecar). evaluations = executions followed by a reload+query: each operation fault free, then once per file-system operation of that operation as failing operation and (mutating ones) as kill point before / inside it, plus idempotence re-applications. distinct_nontrivial = distinct (history, fault kind, k, old/new/neither) tuples.",
        harnesses=[dict(name="C17", workers=4, quick=220, thorough=12000, quick_deadline_s=170, thorough_deadline_s=1500, ulimit_kb=24000000, env={"VERIF_GCPERCENT": "50", "VERIF_MEMLIMIT_MB": "2048"})],
        expect_faults=["kill", "kill-in-write", "fail-rename", "fail-createtemp", "fail-write", "fail-open"],
        components=B_COMPONENTS, assumptions=ENUM_ASSUME + ["reference model = set of tombstoned repository ids and (repository, path) pairs; expected results are the pristine compound shard's documents minus the tombstoned ones"],
        technique="deterministic fault enumeration over generated tombstone histories: every file-system operation of every set/unset/file-tombstone operation is a kill point and an I/O-error point on the simulated disk; reload + query after each, compared with a set model",
        level_text="Histories of SetTombstone/UnsetTombstone (known and unknown ids) and file-tombstone sidecar rewrites on a real compound shard; after every fault-free operation, after every enumerated failure/kill of each of its file-system operations, and after repeated application, a freshly started directory searcher is queried (match-all, content, repository-set, type:repo, list): tombstoned repositories and paths never appear, other repositories are unchanged, success implies the effect, a reported error implies no effect, a kill leaves the old or the new state, re-applying is a no-op, unset restores.",
        level_note="Exhaustive over the operations of each sampled history, sampled over histories.",
    ),
    "C35": dict(
        group="mergesim", level="fault_enumeration",
        rule="one run = 2-4 input simple shards (some with metadata sidecars). merge() and then index.Explode() are each executed once fault free (recorded) and then once per file-system operation (open, read, create, write, rename, remove) as failing operation and, for mutating ones, as kill point before / inside it. distinct_nontrivial = distinct (inputs, phase, fault kind, k, resulting shard membership) tuples.",
        harnesses=[dict(name="C35", workers=4, quick=60, thorough=4000, quick_deadline_s=170, thorough_deadline_s=1500, ulimit_kb=24000000, env={"VERIF_GCPERCENT": "50", "VERIF_MEMLIMIT_MB": "2048"})],
        expect_faults=["kill", "kill-in-write", "fail-open", "fail-rename", "fail-remove", "fail-createtemp", "fail-write"],
        components={"real": ["cmd/zoekt-merge-index merge()", "index.Merge, index.Explode, builderWriteAll", "index.ReadMetadataPathAlive as the observer"], "stub": ["os.* of the instrumented packages (simos)"]},
        assumptions=ENUM_ASSUME,
        technique="deterministic fault enumeration: every file-system operation of a recorded merge and explode is replayed as kill point and as I/O-error point on the simulated disk; shard membership of every repository is read back from the directory",
        level_text="For each sampled input set, merge and explode are enumerated over all their file-system operations: after every outcome no repository id is alive in two loadable *.zoekt files; a completed call that returned no error must have produced the documented post-state (merge: every input repository exactly in the returned compound shard, inputs gone; explode: every repository exactly in its own simple shard, compound shard gone).",
        level_note="Exhaustive over operations per sampled input set.",
    ),
    "C10": dict(
        group="buildsim", level="exploration", rule=SCHED_RULE,
        harnesses=[dict(name="C10", workers=4, quick=260, thorough=20000, quick_deadline_s=170, thorough_deadline_s=1500, ulimit_kb=24000000, env={"VERIF_GCPERCENT": "50", "VERIF_MEMLIMIT_MB": "3072"})],
        expect_probes=["pool-hit", "pool-miss"],
        components={"real": ["index.Builder with Parallelism 1-16 (flush goroutines, throttle channel, errMu, WaitGroup)", "postingsBuilder pooling (sync.Pool -> simulated pool whose hit/miss and object choice come from the tape)", "ShardBuilder.Write, index.Merge", "search.NewDirectorySearcher as observer"], "stub": ["goroutine scheduling", "sync primitives", "sync.Pool"]},
        assumptions=COMMON_ASSUME + ["claim limited to the concurrency/pooling/shard-split/insertion-order/compound dimension; corpora are sampled (3-18 small documents per repository, two repositories)", "ranking order and scores are not compared (the property is about which documents, matches and branches are found)"],
        technique="deterministic simulation: two concurrent index builds under seeded schedules with simulated buffer-pool reuse, varying parallelism, shard limits and insertion order; self-differential against a sequential single-shard build",
        level_text="Two repositories (3-18 generated documents, 1-2 branches, occasional binary documents) are indexed concurrently under the seeded scheduler with Parallelism 1/2/4/16, ShardMax forcing 1..many shards, permuted Add order and tape-chosen reuse of pooled postings builders, optionally merged into a compound shard; a fresh directory searcher must return, for 7 fixed queries, exactly the files, contents, line matches and branches of the sequential one-shard-per-repository reference build.",
        level_note="Samples schedules and corpora; builds dominate the cost (about 0.3-1 s per run).",
    ),
    "C13": dict(
        group="gitsim", level="exploration",
        rule="one run = one generated history over a real git repository with 2-3 branches: 3-10 steps of commits (write/delete/rename/shared-blob/revert on 6 paths) and indexing runs (full, delta, delta with shard-number fallback threshold, occasional change of the indexed branch set). evaluations = indexing runs followed by a per-branch comparison with git; distinct_nontrivial = distinct history prefixes (hashed) at which a comparison was made.",
        harnesses=[dict(name="C13", workers=4, quick=240, thorough=20000, quick_deadline_s=170, thorough_deadline_s=1500, ulimit_kb=24000000, env={"VERIF_GCPERCENT": "200", "VERIF_MEMLIMIT_MB": "2048"})],
        components=G_COMPONENTS, assumptions=["model = what `git ls-tree -r <branch>` and `git cat-file blob` say about each indexed branch head", "history dimension only: kills during the indexing runs are C12's subject"],
        technique="deterministic simulation of histories: seeded commit/index histories on a real git repository, model-based comparison of per-branch search results with git after every indexing run",
        level_text="Generated commit histories over several branches interleaved with full and delta indexing runs through the real gitindex.IndexGitRepo; after every run and for every indexed branch, a search restricted to the branch returns exactly one document with the head content for each path in the branch head and no document for any other path.",
        level_note="Samples histories (seeded); git CLI dominates the cost (about 0.3 s per history).",
    ),
    "C14": dict(
        group="gitsim", level="exploration",
        rule="one run = one generated git repository (1-3 branches, 2-6 commits over 7 paths: text, empty, binary, larger-than-SizeMax and shared blobs, deletions) indexed (1) through go-git, (2) through `git cat-file --batch` with the child's stdout delivered in fault-stream-chosen chunks of 1 byte..64 KiB, (3) after further commits, through cat-file with the stream cut (early EOF or child killed) at a fault-stream-chosen byte, on top of the previously installed index. evaluations = indexing runs; distinct_nontrivial = distinct (repository history, stream fault kind, position) tuples.",
        harnesses=[dict(name="C14", workers=4, quick=200, thorough=12000, quick_deadline_s=170, thorough_deadline_s=1500, ulimit_kb=24000000, env={"VERIF_GCPERCENT": "200", "VERIF_MEMLIMIT_MB": "2048"})],
        expect_faults=["chunked-reads", "early-eof", "child-killed"],
        components=G_COMPONENTS, assumptions=["claim limited to the blob-reading paths and their stream faults; ignore-file semantics, submodules and tree-shape coverage are input space and not claimed", "git here is 2.39 (no cat-file --filter): the batch path is enabled with ZOEKT_DISABLE_CATFILE_BATCH=false and a non-empty LargeFiles list"],
        technique="deterministic fault injection on the git cat-file --batch stream (seeded chunking, early EOF, killed child) plus model-based comparison of both blob-reading paths with git",
        level_text="Both blob-reading paths of gitindex.IndexGitRepo on generated repositories must produce exactly one document per distinct (path, content) pair with the branch list of the branches that contain it, the blob content or a skip marker for binary/too-large blobs, and must agree with each other, for every chunking of the cat-file stream; a cat-file stream that ends early or whose child is killed must make the run fail and leave the previously installed index unchanged.",
        level_note="Samples repositories and fault positions.",
    ),
    "C32": dict(
        group="ixserver", level="exploration",
        rule="one run = one generated index directory of 3-6 repositories (simple shards, repositories split over two shards, up to two compound shards with and without tombstoned members, trash entries aged 1 min / 23h59 / exactly 24h / 24h+1s / 25h / 100h / dated in the future, index+trash conflicts, renamed repositories with two names, temp files) and a history of 1-4 cleanups with changing assigned sets, clock advances of 0-30 h and an indexer adding repositories in between. evaluations = cleanups checked against the state before them (fault sub-mode: every file-system operation of a recorded cleanup additionally as failing operation and as kill point, each followed by a recovery cleanup). distinct_nontrivial = distinct (layout, history prefix[, fault kind, k]) hashes.",
        harnesses=[dict(name="C32", workers=8, quick=1500, thorough=120000, quick_deadline_s=120, thorough_deadline_s=1200, ulimit_kb=24000000, env={"VERIF_GCPERCENT": "100", "VERIF_MEMLIMIT_MB": "2048"}),
                   dict(name="C32/faults", workers=8, quick=64, thorough=8000, quick_deadline_s=90, thorough_deadline_s=1200, ulimit_kb=24000000, env={"VERIF_GCPERCENT": "100", "VERIF_MEMLIMIT_MB": "2048", "VERIF_MIN_S": "4"})],
        expect_faults=["kill", "fail-rename", "fail-remove"],
        components={"real": ["cmd/zoekt-sourcegraph-indexserver cleanup, getShards, getTombstonedRepos, moveAll, removeAll, maybeSetTombstone (instrumented copy)", "index.SetTombstone/UnsetTombstone, ReadMetadataPath(Alive), IndexFilePaths", "index shard reader as the observer (match-all search per shard)", "real files in a private tmpfs directory with explicitly set mtimes"],
                    "stub": ["os.* of the instrumented packages (simos: counts, fails, or kills the process at every operation)", "the clock: 'now' is the run's own clock value passed to cleanup; shard mtimes are set from it", "Server.Run loop, the Sourcegraph frontend and the indexer (the harness drops prepared shard images into the directory)"]},
        assumptions=["kill = kill -9 (completed system calls persist); power loss is not modelled", "under an injected I/O error or a kill only rule 1 (an assigned, indexed repository is never lost) is required of the interrupted cleanup, and after the next fault-free cleanup no unassigned repository may be searchable", "restoring tombstoned repositories is exercised but not required (the property text only names the trash)"],
        technique="deterministic simulation of histories with fault injection: seeded index/trash/tombstone layouts, assignment and clock histories through the real cleanup with a run-owned clock; model rules checked against the directory state before each cleanup; every file-system operation of a cleanup enumerated as I/O error and as kill point",
        level_text="After every cleanup of a generated history: (1) every assigned repository that was indexed with one consistent name is searchable with exactly the same documents; (2) every assigned repository that was only in the trash with no shard older than 24 h is searchable with the trashed documents; (3) no unassigned repository is searchable, and one that was indexed is now in the trash or tombstoned in its compound shard, not deleted; (4) a trashed shard disappears only if the repository's trash entry was older than 24 h at 'now', it conflicted with an indexed copy, or it was restored; no shard becomes unloadable. With an I/O error or kill at any operation of the cleanup, rule 1 still holds and the next fault-free cleanup leaves no unassigned repository searchable.",
        level_note="Samples layouts/histories; failure and kill points are enumerated exhaustively inside each sampled cleanup of the fault sub-mode.",
    ),
    "C33": dict(
        group="syncsim", level="exploration",
        rule=SYNC_RULE + " C33 evaluates the preview oracles (empty mutation log and unchanged snapshot of the index directory; announced set == performed set of the immediately following -f run).",
        harnesses=[dict(name="C33", workers=8, quick=64, thorough=6000, quick_deadline_s=150, thorough_deadline_s=1500, ulimit_kb=24000000, env={"VERIF_GCPERCENT": "100", "VERIF_MEMLIMIT_MB": "2048", "VERIF_MIN_S": "20"})],
        expect_probes=["preview-announced-something"],
        components=SYNC_COMPONENTS, assumptions=SYNC_ASSUME,
        technique="deterministic simulation of histories: seeded histories of repository/root changes and zoekt-local-sync commands executed as a simulated process whose every file-system operation is logged; previews must have an empty mutation log under the index directory and announce exactly what the same command with -f then performs",
        level_text="For every `sync` / `remove SEL` preview in a generated history: the simulated process performs no mutating file-system operation under the index directory (create-then-delete would be seen) and a content/mtime snapshot of the directory is unchanged; the set of 'Would remove' shards equals the set of 'Removing' shards and the set of 'Would index' repositories equals the set of 'Indexed' repositories of the same command run with -f immediately afterwards on the same state; a preview fails iff the forced run fails.",
        level_note="Samples histories (repositories added, removed, renamed, moved between roots keeping their name, committed to, foreign shards, root subsets, name/source/unknown selectors).",
    ),
    "C34": dict(
        group="syncsim", level="exploration",
        rule=SYNC_RULE + " C34 evaluates convergence after every successful `sync -f` (also after an interrupted one followed by a fault-free one), fail-before-change for duplicate names, and exactness of `remove -f`.",
        harnesses=[dict(name="C34", workers=8, quick=64, thorough=6000, quick_deadline_s=150, thorough_deadline_s=1500, ulimit_kb=24000000, env={"VERIF_GCPERCENT": "100", "VERIF_MEMLIMIT_MB": "2048", "VERIF_MIN_S": "20"})],
        expect_probes=["duplicate-names"], expect_faults=["kill"],
        components=SYNC_COMPONENTS, assumptions=SYNC_ASSUME + ["model of discovery: every repository the harness created under a passed root, except repositories nested inside another repository's worktree; names = path relative to the root, base name of the root for a repository at the root, '.git' stripped from bare repositories", "up to date = for every path of `git ls-tree -r HEAD` exactly one document with the blob content, and no other document"],
        technique="deterministic simulation of histories with fault injection: seeded repository/root/index histories through zoekt-local-sync as a simulated process, with kills and I/O errors at seeded operations of `sync -f`; the index directory is compared with a model of the discovered repositories and with git",
        level_text="After every successful `sync -f` over a root subset the index (shard metadata and a fresh searcher) holds exactly the discovered repositories, named by relative path, with the recorded source, each with exactly the documents of its HEAD commit; with two discovered repositories of the same name the command fails with an empty mutation log under the index directory; `remove -f SEL` deletes exactly the shard files of the selected repository (by name or source), an unknown selector fails without change, removal I/O errors are reported; after a `sync -f` killed or failed at a seeded file-system operation the next fault-free `sync -f` converges.",
        level_note="Samples histories; kill/failure points are sampled (operation number from the fault stream), not enumerated.",
    ),
    "C38": dict(
        group="buildsim", level="exploration",
        rule="one run = one history: index a fixed 5-document repository (small, medium, large, many-trigram and source files) with option set A; change 0-2 of {SizeMax, TrigramMax, LargeFiles, branch version, branch set, URL, RawConfig}; optionally run a build with the new options that is killed at a fault-stream-chosen mutation; then ask IndexState/IncrementalSkipIndexing and compare the searchable content with a fresh full build with the new options. distinct_nontrivial = distinct (A, B, kill point) tuples.",
        harnesses=[dict(name="C38", workers=4, quick=400, thorough=20000, quick_deadline_s=170, thorough_deadline_s=1500, ulimit_kb=24000000, env={"VERIF_GCPERCENT": "200", "VERIF_MEMLIMIT_MB": "2048"})],
        expect_faults=["kill"],
        components=B_COMPONENTS, assumptions=["claim limited to the history/crash dimension; the option cross-product is sampled over the options that change which content gets indexed without ctags (SizeMax, TrigramMax, LargeFiles), branches and mutable metadata", "reference = a fresh full build with the new options (self-differential)"],
        technique="deterministic simulation of histories with fault injection: seeded option/branch/metadata changes and killed builds between two indexing decisions; the incremental decision is checked against a fresh full build",
        level_text="Whenever Options.IncrementalSkipIndexing says 'skip', the installed index must be searchable-identical to a fresh full build with the new options (documents, skip markers, contents, branches, versions); an unchanged repository must be skipped; a change of only URL/RawConfig must be classified as metadata-only.",
        level_note="Samples histories; ctags-dependent options are not exercised (no ctags binary in the sandbox).",
    ),
}
