package simrt

import (
	"bytes"
	"fmt"
	"iter"
	"runtime"
	"sort"
	"strconv"
	"sync"
	"sync/atomic"
	"testing/synctest"
	"time"
)

type state int32

const (
	stRunnable state = iota
	stRunning
	stBlockedExt
	stBlockedSim
	stDone
)

// Proc is a simulated OS process: a set of tasks sharing a liveness flag.
// simos consults it for crash/fault decisions.
type Proc struct {
	Name string
	Dead bool
	// Data is owned by simos (per-process mutation log, crash plan).
	Data any
}

type Task struct {
	id        int
	grant     chan struct{}
	st        state
	site      string
	announced bool
	proc      *Proc
	prio      int // PCT priority
	name      string
}

func (t *Task) ID() int      { return t.id }
func (t *Task) Proc() *Proc  { return t.proc }
func (t *Task) Name() string { return t.name }

// Policy kinds.
const (
	PolUniform = iota
	PolSticky
	PolPCT
	PolDelayOne
	NPolicies
)

// Config holds the per-run knobs of the scheduler.
type Config struct {
	Policy   int
	StayNum  int // sticky: stay with probability StayNum/100
	PCTDepth int // number of priority change points
	PCTLen   int // expected run length in steps for change point placement
	Victim   int // delay-one: task id to starve
	DelayFor int // delay-one: for this many steps
	// JumpPerMille: probability (per 1000 picks) of a simulated-time jump
	// while tasks are runnable. 0 disables.
	JumpPerMille int
	// GCPerMille: probability (per 1000 picks) of a forced GC+finalizer drain.
	GCPerMille int
	MaxSteps   int
	MaxProcs   int           // value returned by simrt.GOMAXPROCS(0); 0 = real
	Horizon    time.Duration // idle longer than this (simulated) with blocked tasks = deadlock
	KeepTrace  bool
	Quantum    time.Duration // if >0, simulated time advances by this much at every pick (models CPU time)
}

// DrawConfig draws a swarm configuration from the gen stream.
func DrawConfig(tp *Tape) Config {
	c := Config{MaxSteps: 50000, Horizon: 2 * time.Hour}
	c.Policy = tp.Gen(NPolicies)
	c.StayNum = []int{50, 90, 99}[tp.Gen(3)]
	c.PCTDepth = 1 + tp.Gen(3)
	c.PCTLen = []int{50, 200, 1000}[tp.Gen(3)]
	c.Victim = tp.Gen(6)
	c.DelayFor = []int{20, 100, 400}[tp.Gen(3)]
	c.JumpPerMille = []int{0, 0, 5, 30}[tp.Gen(4)]
	return c
}

var jumpDurations = []time.Duration{time.Millisecond, 100 * time.Millisecond, time.Second, 5 * time.Second, 61 * time.Second}

type Sim struct {
	mu     sync.Mutex
	tasks  []*Task
	byGoid map[int64]*Task
	tape   *Tape
	cfg    Config
	last   *Task
	wake   chan struct{}

	Steps        int
	Switches     int
	Jumps        int
	GCs          int
	h            uint64
	Uncontrolled int
	Unannounced  int
	trace        []string
	pairs        map[uint64]struct{}
	sitesSeen    map[string]int
	probes       map[string]int
	pctChange    map[int]bool
	onStep       []func() error
	stopErr      error
	stopped      bool
	deadlock     bool
	budget       bool
	start        time.Time
	gcHook       func()
	simTime      time.Duration
}

var cur atomic.Pointer[Sim]

// Active reports whether a simulation is running in this process.
func Active() bool { return cur.Load() != nil }

func goid() int64 {
	var buf [64]byte
	n := runtime.Stack(buf[:], false)
	b := buf[len("goroutine "):n]
	i := bytes.IndexByte(b, ' ')
	id, _ := strconv.ParseInt(string(b[:i]), 10, 64)
	return id
}

func (s *Sim) self() *Task {
	g := goid()
	s.mu.Lock()
	t := s.byGoid[g]
	s.mu.Unlock()
	return t
}

// Self returns the calling task, or nil outside a simulation / on a non-task goroutine.
func Self() *Task {
	s := cur.Load()
	if s == nil {
		return nil
	}
	return s.self()
}

// SelfProc returns the process of the calling task, or nil.
func SelfProc() *Proc {
	if t := Self(); t != nil {
		return t.proc
	}
	return nil
}

func mix(h, x uint64) uint64 {
	h ^= x
	h *= 0x100000001b3
	h ^= h >> 29
	return h
}

func strHash(s string) uint64 {
	h := uint64(0xcbf29ce484222325)
	for i := 0; i < len(s); i++ {
		h ^= uint64(s[i])
		h *= 0x100000001b3
	}
	return h
}

// ev folds an event into the schedule hash. Must only be called by the baton
// holder or by the scheduler at quiescence.
func (s *Sim) ev(kind string, a, b int, site string) {
	s.h = mix(mix(mix(mix(s.h, strHash(kind)), uint64(a)), uint64(b)), strHash(site))
	if s.cfg.KeepTrace {
		s.trace = append(s.trace, fmt.Sprintf("%d %s %d %d %s", s.Steps, kind, a, b, site))
		if len(s.trace) > 4000 {
			s.trace = append(s.trace[:0], s.trace[2000:]...)
		}
	}
}

// Log folds a harness-level event into the hash (baton holder only).
func Log(kind string, a, b int, detail string) {
	if s := cur.Load(); s != nil {
		s.mu.Lock()
		s.ev(kind, a, b, detail)
		s.mu.Unlock()
	}
}

// Probe counts a named rare condition.
func Probe(name string) {
	if s := cur.Load(); s != nil {
		s.mu.Lock()
		s.probes[name]++
		s.mu.Unlock()
	}
}

func (s *Sim) Hash() uint64           { return s.h }
func (s *Sim) Trace() []string        { return s.trace }
func (s *Sim) Probes() map[string]int { return s.probes }
func (s *Sim) Pairs() map[uint64]struct{} {
	return s.pairs
}
func (s *Sim) Sites() map[string]int { return s.sitesSeen }
func (s *Sim) Deadlocked() bool       { return s.deadlock }
func (s *Sim) OverBudget() bool       { return s.budget }
func (s *Sim) StopErr() error         { return s.stopErr }
func (s *Sim) SimTime() time.Duration { return s.simTime }
func (s *Sim) Tape() *Tape            { return s.tape }

// BlockedSites lists where unfinished tasks are blocked (for deadlock reports).
func (s *Sim) BlockedSites() []string {
	var out []string
	for _, t := range s.tasks {
		if t.st != stDone {
			out = append(out, fmt.Sprintf("task%d(%s)@%s", t.id, t.name, t.site))
		}
	}
	return out
}

func (s *Sim) signal() {
	select {
	case s.wake <- struct{}{}:
	default:
	}
}

func (s *Sim) park(t *Task, site string) {
	s.mu.Lock()
	if t.st != stRunning && !(t.st == stBlockedExt && t.announced) {
		s.Uncontrolled++
	}
	t.st = stRunnable
	t.announced = false
	t.site = site
	s.mu.Unlock()
	s.signal()
	<-t.grant
	if s.stopped || (t.proc != nil && t.proc.Dead) {
		runtime.Goexit()
	}
}

// Yield is a scheduling point.
func Yield(site string) {
	s := cur.Load()
	if s == nil {
		return
	}
	t := s.self()
	if t == nil {
		return
	}
	s.park(t, site)
}

// Go starts f as a new task of the calling task's process.
func Go(f func(), site string) {
	s := cur.Load()
	if s == nil {
		go f()
		return
	}
	var p *Proc
	if t := s.self(); t != nil {
		p = t.proc
	}
	s.spawn(f, site, p, "")
}

// GoProc starts f as the first task of process p.
func GoProc(p *Proc, name string, f func()) {
	s := cur.Load()
	if s == nil {
		panic("simrt.GoProc outside simulation")
	}
	s.spawn(f, "proc:"+name, p, name)
}

// GoNamed starts a named task in the caller's process.
func GoNamed(name string, f func()) {
	s := cur.Load()
	if s == nil {
		go f()
		return
	}
	var p *Proc
	if t := s.self(); t != nil {
		p = t.proc
	}
	s.spawn(f, "task:"+name, p, name)
}

func (s *Sim) spawn(f func(), site string, p *Proc, name string) *Task {
	s.mu.Lock()
	t := &Task{id: len(s.tasks), grant: make(chan struct{}), st: stRunnable, site: "start@" + site, proc: p, name: name}
	if s.cfg.Policy == PolPCT && !s.tape.Replaying(SSched) {
		t.prio = 1000 + s.tape.Rng(SSched).IntN(1000000)
	}
	s.tasks = append(s.tasks, t)
	s.ev("spawn", t.id, 0, site)
	s.mu.Unlock()
	ready := make(chan struct{})
	go func() {
		g := goid()
		s.mu.Lock()
		s.byGoid[g] = t
		s.mu.Unlock()
		close(ready)
		defer func() {
			s.mu.Lock()
			t.st = stDone
			delete(s.byGoid, g)
			s.mu.Unlock()
			s.signal()
		}()
		<-t.grant
		if s.stopped || (t.proc != nil && t.proc.Dead) {
			return
		}
		f()
	}()
	<-ready
	return t
}

// BeforeBlock announces that the caller is about to block in a real
// (uninstrumented) operation; pair with AfterBlock.
func BeforeBlock(site string) *Task {
	s := cur.Load()
	if s == nil {
		return nil
	}
	t := s.self()
	if t == nil {
		return nil
	}
	s.mu.Lock()
	t.st = stBlockedExt
	t.announced = true
	t.site = site
	s.mu.Unlock()
	return t
}

func AfterBlock(t *Task) {
	if t == nil {
		return
	}
	s := cur.Load()
	if s == nil {
		return
	}
	s.park(t, "woke@"+t.site)
}

func Send[T any](ch chan<- T, site string) func(T) {
	return func(v T) {
		if cur.Load() == nil {
			ch <- v
			return
		}
		Yield(site)
		select {
		case ch <- v:
			return
		default:
		}
		t := BeforeBlock(site)
		ch <- v
		AfterBlock(t)
	}
}

func Recv[T any](ch <-chan T, site string) T {
	v, _ := Recv2(ch, site)
	return v
}

func Recv2[T any](ch <-chan T, site string) (T, bool) {
	if cur.Load() == nil {
		v, ok := <-ch
		return v, ok
	}
	Yield(site)
	select {
	case v, ok := <-ch:
		return v, ok
	default:
	}
	t := BeforeBlock(site)
	v, ok := <-ch
	AfterBlock(t)
	return v, ok
}

func Close[T any](ch chan<- T, site string) {
	Yield(site)
	close(ch)
}

func RangeChan[T any](ch <-chan T, site string) iter.Seq[T] {
	return func(yield func(T) bool) {
		for {
			v, ok := Recv2(ch, site)
			if !ok {
				return
			}
			if !yield(v) {
				return
			}
		}
	}
}

// SelectStart yields and returns the rotation used for polling the cases.
func SelectStart(n int, site string) int {
	s := cur.Load()
	if s == nil {
		return 0
	}
	t := s.self()
	if t == nil {
		return 0
	}
	s.park(t, site)
	s.mu.Lock()
	p := s.tape.Choose(SSched, n)
	s.ev("sel", t.id, p, site)
	s.mu.Unlock()
	return p
}

func BlockForever(site string) {
	BeforeBlock(site)
	select {}
}

func Sleep(d time.Duration) {
	if cur.Load() == nil {
		time.Sleep(d)
		return
	}
	Yield("sleep")
	t := BeforeBlock("sleep")
	time.Sleep(d)
	AfterBlock(t)
}

func GOMAXPROCS(n int) int {
	s := cur.Load()
	if s == nil || s.cfg.MaxProcs == 0 {
		return runtime.GOMAXPROCS(n)
	}
	return s.cfg.MaxProcs
}

// ChooseMap draws from the map stream (baton holder only).
func ChooseMap(n int) int {
	s := cur.Load()
	if s == nil {
		return 0
	}
	s.mu.Lock()
	v := s.tape.Choose(SMap, n)
	s.mu.Unlock()
	return v
}

// ChooseFault draws from the fault stream (baton holder only).
func ChooseFault(n int) int {
	s := cur.Load()
	if s == nil {
		return 0
	}
	s.mu.Lock()
	v := s.tape.Choose(SFault, n)
	s.mu.Unlock()
	return v
}

// mapOrder is set by sequential harnesses that want map-range permutations
// without a scheduler.
var mapOrder atomic.Pointer[Tape]

// SetMapTape installs a tape for MapRange permutations outside a simulation.
func SetMapTape(t *Tape) { mapOrder.Store(t) }

func MapRange[M ~map[K]V, K comparable, V any](m M) iter.Seq2[K, V] {
	return func(yield func(K, V) bool) {
		keys := make([]K, 0, len(m))
		for k := range m {
			keys = append(keys, k)
		}
		strs := make([]string, len(keys))
		for i := range keys {
			strs[i] = fmt.Sprint(keys[i])
		}
		idx := make([]int, len(keys))
		for i := range idx {
			idx[i] = i
		}
		sort.Slice(idx, func(i, j int) bool { return strs[idx[i]] < strs[idx[j]] })
		var tp *Tape
		var s *Sim
		if s = cur.Load(); s != nil && s.self() != nil {
			tp = s.tape
		} else if t := mapOrder.Load(); t != nil {
			tp = t
			s = nil
		}
		if tp != nil && len(idx) > 1 {
			if s != nil {
				s.mu.Lock()
			}
			// Fisher-Yates from the map stream; an all-zero tape keeps sorted order.
			for i := 0; i < len(idx)-1; i++ {
				j := i + tp.Choose(SMap, len(idx)-i)
				idx[i], idx[j] = idx[j], idx[i]
			}
			if s != nil {
				s.mu.Unlock()
			}
		}
		for _, i := range idx {
			k := keys[i]
			v, ok := m[k]
			if !ok {
				continue
			}
			if !yield(k, v) {
				return
			}
		}
	}
}

// BlockSim parks the calling task until Wake; used by simulated primitives.
func BlockSim(t *Task, site string) {
	s := cur.Load()
	s.mu.Lock()
	t.st = stBlockedSim
	t.site = site
	s.mu.Unlock()
	s.signal()
	<-t.grant
	if s.stopped || (t.proc != nil && t.proc.Dead) {
		runtime.Goexit()
	}
}

func Wake(t *Task) {
	s := cur.Load()
	if s == nil {
		return
	}
	s.mu.Lock()
	if t.st == stBlockedSim {
		t.st = stRunnable
	}
	s.mu.Unlock()
}

// OnStep registers an invariant evaluated by the scheduler at every
// quiescent point. A non-nil error stops the run.
func OnStep(f func() error) {
	s := cur.Load()
	if s == nil {
		return
	}
	s.mu.Lock()
	s.onStep = append(s.onStep, f)
	s.mu.Unlock()
}

// SetGCHook installs the function executed at scheduler-chosen GC points.
func SetGCHook(f func()) {
	if s := cur.Load(); s != nil {
		s.gcHook = f
	}
}

// StepNo returns the current step number (for stamping histories).
func StepNo() int {
	s := cur.Load()
	if s == nil {
		return 0
	}
	return s.Steps
}

// Kill marks a process dead. Its tasks exit at their next scheduling point;
// tasks blocked in simulated primitives are made runnable so they can exit.
func Kill(p *Proc) {
	s := cur.Load()
	p.Dead = true
	if s == nil {
		return
	}
	s.mu.Lock()
	for _, t := range s.tasks {
		if t.proc == p && t.st == stBlockedSim {
			t.st = stRunnable
		}
	}
	s.ev("kill", 0, 0, p.Name)
	s.mu.Unlock()
}

// Run executes main as task 0 under the scheduler and returns when every task
// is done, the run is stopped by an invariant, deadlocks, or exceeds its step
// budget. It must be called inside a synctest bubble.
// runStartHooks run at the beginning of every simulation: shims use them to
// drop process-wide state (e.g. the contents of simulated sync.Pools) so that a
// run never depends on which runs the worker process executed before it.
var runStartHooks []func()

// OnRunStart registers f to be called at the start of every simulation.
func OnRunStart(f func()) { runStartHooks = append(runStartHooks, f) }

func Run(tp *Tape, cfg Config, main func()) *Sim {
	for _, f := range runStartHooks {
		f()
	}
	if cfg.MaxSteps == 0 {
		cfg.MaxSteps = 50000
	}
	if cfg.Horizon == 0 {
		cfg.Horizon = 2 * time.Hour
	}
	s := &Sim{byGoid: map[int64]*Task{}, tape: tp, cfg: cfg, wake: make(chan struct{}, 1),
		pairs: map[uint64]struct{}{}, probes: map[string]int{}, sitesSeen: map[string]int{}, start: time.Now(), h: 0xcbf29ce484222325}
	if cfg.Policy == PolPCT && !tp.Replaying(SSched) {
		s.pctChange = map[int]bool{}
		for i := 0; i < cfg.PCTDepth; i++ {
			s.pctChange[1+tp.Rng(SSched).IntN(cfg.PCTLen)] = true
		}
	}
	cur.Store(s)
	defer cur.Store(nil)
	defer func() { s.simTime = time.Since(s.start) }()
	s.spawn(main, "main", nil, "main")
	var idleSince time.Time
	idle := false
	lowPrio := 999
	for {
		synctest.Wait()
		s.mu.Lock()
		var cands []*Task
		alldone := true
		live := false
		for _, t := range s.tasks {
			if t.st == stRunning {
				// blocked in something it did not announce
				t.st = stBlockedExt
				s.Unannounced++
				s.ev("unannounced", t.id, 0, t.site)
			}
			if t.st == stRunnable {
				if t == s.last {
					cands = append([]*Task{t}, cands...)
				} else {
					cands = append(cands, t)
				}
			}
			if t.st != stDone {
				alldone = false
				if t.proc == nil || !t.proc.Dead {
					live = true
				}
			}
		}
		if alldone || (!live && len(cands) == 0) {
			s.mu.Unlock()
			return s
		}
		hooks := s.onStep
		s.mu.Unlock()
		for _, f := range hooks {
			if err := f(); err != nil {
				s.stopErr = err
				s.stopped = true
				return s
			}
		}
		if len(cands) == 0 {
			if !idle {
				idle = true
				idleSince = time.Now()
			} else if time.Since(idleSince) > cfg.Horizon {
				s.deadlock = true
				s.stopped = true
				return s
			}
			s.mu.Lock()
			s.ev("idle", int(time.Since(s.start)/time.Millisecond), 0, "")
			s.mu.Unlock()
			tm := time.NewTimer(cfg.Horizon/4 + time.Second)
			select {
			case <-s.wake:
			case <-tm.C:
			}
			tm.Stop()
			continue
		}
		idle = false
		if s.Steps >= cfg.MaxSteps {
			s.budget = true
			s.stopped = true
			return s
		}
		s.mu.Lock()
		nExtra := 0
		cfg := s.cfg
		if cfg.JumpPerMille > 0 {
			nExtra += len(jumpDurations)
		}
		gcIdx := -1
		if cfg.GCPerMille > 0 {
			gcIdx = len(cands) + nExtra
			nExtra++
		}
		n := len(cands) + nExtra
		c := s.tape.Record(SSched, n, func() int {
			rng := s.tape.Rng(SSched)
			if cfg.JumpPerMille > 0 && rng.IntN(1000) < cfg.JumpPerMille {
				return len(cands) + rng.IntN(len(jumpDurations))
			}
			if cfg.GCPerMille > 0 && rng.IntN(1000) < cfg.GCPerMille {
				return gcIdx
			}
			hasLast := cands[0] == s.last
			switch cfg.Policy {
			case PolSticky:
				if hasLast && rng.IntN(100) < cfg.StayNum {
					return 0
				}
				return rng.IntN(len(cands))
			case PolPCT:
				if s.pctChange[s.Steps] && hasLast {
					lowPrio--
					s.last.prio = lowPrio
				}
				best := 0
				for i, t := range cands {
					if t.prio > cands[best].prio {
						best = i
					}
				}
				return best
			case PolDelayOne:
				var ok []int
				for i, t := range cands {
					if t.id != cfg.Victim || s.Steps >= cfg.DelayFor {
						ok = append(ok, i)
					}
				}
				if len(ok) == 0 {
					return rng.IntN(len(cands))
				}
				if hasLast && rng.IntN(100) < 50 {
					for _, i := range ok {
						if i == 0 {
							return 0
						}
					}
				}
				return ok[rng.IntN(len(ok))]
			}
			return rng.IntN(len(cands))
		})
		if c >= len(cands) {
			if c == gcIdx {
				s.GCs++
				s.ev("gc", 0, 0, "")
				hook := s.gcHook
				s.mu.Unlock()
				if hook != nil {
					hook()
				}
				continue
			}
			d := jumpDurations[c-len(cands)]
			s.Jumps++
			s.ev("jump", int(d/time.Millisecond), 0, "")
			s.mu.Unlock()
			time.Sleep(d)
			continue
		}
		t := cands[c]
		if s.last != nil && t != s.last {
			s.Switches++
			s.pairs[mix(strHash(s.last.site), strHash(t.site))] = struct{}{}
		}
		s.sitesSeen[t.site]++
		s.last = t
		t.st = stRunning
		s.Steps++
		s.ev("run", t.id, 0, t.site)
		s.mu.Unlock()
		if cfg.Quantum > 0 {
			time.Sleep(cfg.Quantum)
		}
		t.grant <- struct{}{}
	}
}

// MapTapeSet reports whether a sequential map/pool tape is installed.
func MapTapeSet() bool { return mapOrder.Load() != nil }

// ChoosePool draws a pool decision from the map stream, in or outside a simulation.
func ChoosePool(n int) int {
	if s := cur.Load(); s != nil && s.self() != nil {
		s.mu.Lock()
		v := s.tape.Choose(SMap, n)
		s.mu.Unlock()
		return v
	}
	if t := mapOrder.Load(); t != nil {
		return t.Choose(SMap, n)
	}
	return 0
}

// Calm ends the fault phase of a run: no more time jumps or GC points while
// tasks are runnable, and uniform random picks (every runnable task is chosen
// with probability 1/n at each step, i.e. a fair suffix with probability 1).
// Liveness bounds are stated relative to this point.
func Calm() {
	s := cur.Load()
	if s == nil {
		return
	}
	s.mu.Lock()
	s.cfg.JumpPerMille = 0
	s.cfg.GCPerMille = 0
	s.cfg.Policy = PolUniform
	s.ev("calm", 0, 0, "")
	s.mu.Unlock()
}
