// Package simrt is the deterministic scheduler runtime: one goroutine runs at a
// time ("baton"), every choice comes from a Tape, and every event is folded
// into a hash that identifies the schedule.
package simrt

import (
	"math/rand/v2"
)

// Streams of the tape.
const (
	SGen   = 0 // workload, corpus, configuration knobs, policy
	SSched = 1 // task picks, select rotations, time jumps, GC points
	SFault = 2 // fault decisions
	SMap   = 3 // map-range permutations, pool choices
	NStreams = 4
)

var StreamNames = [NStreams]string{"gen", "sched", "fault", "map"}

// Tape is the single source of choices for one run. In record mode values are
// drawn from per-stream PCG generators and appended; in replay mode they are
// read back (value mod n; 0 once the recorded values run out).
type Tape struct {
	Seed   uint64
	rng    [NStreams]*rand.Rand
	Rec    [NStreams][]uint32
	play   [NStreams][]uint32
	pos    [NStreams]int
	replay [NStreams]bool
}

func splitmix(x uint64) uint64 {
	x += 0x9e3779b97f4a7c15
	z := x
	z = (z ^ (z >> 30)) * 0xbf58476d1ce4e5b9
	z = (z ^ (z >> 27)) * 0x94d049bb133111eb
	return z ^ (z >> 31)
}

// RunSeed derives the seed of run i of harness h from the batch seed.
func RunSeed(batch uint64, harness string, i uint64) uint64 {
	x := splitmix(batch)
	for _, c := range []byte(harness) {
		x = splitmix(x ^ uint64(c))
	}
	return splitmix(x ^ splitmix(i))
}

func NewTape(seed uint64) *Tape {
	t := &Tape{Seed: seed}
	for i := 0; i < NStreams; i++ {
		t.rng[i] = rand.New(rand.NewPCG(seed, uint64(i)+1))
	}
	return t
}

// ReplayTape returns a tape that replays the given values. A nil stream falls
// back to the seed's generator (used when only some streams are pinned).
func ReplayTape(seed uint64, vals [NStreams][]uint32) *Tape {
	t := NewTape(seed)
	for i := 0; i < NStreams; i++ {
		if vals[i] != nil {
			t.play[i] = vals[i]
			t.replay[i] = true
		}
	}
	return t
}

// Choose returns a value in [0,n). n<=1 returns 0 without consuming the tape.
func (t *Tape) Choose(stream, n int) int {
	if n <= 1 {
		return 0
	}
	var v uint32
	if t.replay[stream] {
		if t.pos[stream] < len(t.play[stream]) {
			v = t.play[stream][t.pos[stream]] % uint32(n)
		}
		t.pos[stream]++
	} else {
		v = uint32(t.rng[stream].IntN(n))
	}
	t.Rec[stream] = append(t.Rec[stream], v)
	return int(v)
}

// Record appends an externally computed choice (policy-driven scheduling) so
// that it can be replayed; in replay mode it returns the replayed value
// instead of the proposed one.
func (t *Tape) Record(stream, n int, proposed func() int) int {
	if n <= 1 {
		return 0
	}
	var v uint32
	if t.replay[stream] {
		if t.pos[stream] < len(t.play[stream]) {
			v = t.play[stream][t.pos[stream]] % uint32(n)
		}
		t.pos[stream]++
	} else {
		v = uint32(proposed())
	}
	t.Rec[stream] = append(t.Rec[stream], v)
	return int(v)
}

// Rng exposes the stream generator for policies (only consulted in record mode).
func (t *Tape) Rng(stream int) *rand.Rand { return t.rng[stream] }

// Replaying reports whether the stream is replayed.
func (t *Tape) Replaying(stream int) bool { return t.replay[stream] }

// Convenience wrappers.
func (t *Tape) Gen(n int) int   { return t.Choose(SGen, n) }
func (t *Tape) Fault(n int) int { return t.Choose(SFault, n) }

// GenRange returns a value in [lo,hi].
func (t *Tape) GenRange(lo, hi int) int { return lo + t.Choose(SGen, hi-lo+1) }

// GenBool returns true with probability 1/den... num/den.
func (t *Tape) GenChance(num, den int) bool { return t.Choose(SGen, den) >= den-num }

// FaultChance: true with probability num/den; the value 0 always means "no fault".
func (t *Tape) FaultChance(num, den int) bool { return t.Choose(SFault, den) >= den-num }
