// Package satomic mirrors sync/atomic types and functions with yields.
package satomic

import (
	"sync/atomic"
	"unsafe"

	"github.com/sourcegraph/zoekt/internal/verifsim/simrt"
)

type Bool struct{ v atomic.Bool }

func (b *Bool) Load() bool { simrt.Yield("atomic.Bool.Load"); return b.v.Load() }
func (b *Bool) Store(x bool) { simrt.Yield("atomic.Bool.Store"); b.v.Store(x) }
func (b *Bool) Swap(x bool) bool { simrt.Yield("atomic.Bool.Swap"); return b.v.Swap(x) }
func (b *Bool) CompareAndSwap(o, n bool) bool {
	simrt.Yield("atomic.Bool.CAS")
	return b.v.CompareAndSwap(o, n)
}

type Int32 struct{ v atomic.Int32 }

func (b *Int32) Load() int32 { simrt.Yield("atomic.Int32.Load"); return b.v.Load() }
func (b *Int32) Store(x int32) { simrt.Yield("atomic.Int32.Store"); b.v.Store(x) }
func (b *Int32) Add(x int32) int32 { simrt.Yield("atomic.Int32.Add"); return b.v.Add(x) }
func (b *Int32) Swap(x int32) int32 { simrt.Yield("atomic.Int32.Swap"); return b.v.Swap(x) }
func (b *Int32) CompareAndSwap(o, n int32) bool {
	simrt.Yield("atomic.Int32.CAS")
	return b.v.CompareAndSwap(o, n)
}

type Int64 struct{ v atomic.Int64 }

func (b *Int64) Load() int64 { simrt.Yield("atomic.Int64.Load"); return b.v.Load() }
func (b *Int64) Store(x int64) { simrt.Yield("atomic.Int64.Store"); b.v.Store(x) }
func (b *Int64) Add(x int64) int64 { simrt.Yield("atomic.Int64.Add"); return b.v.Add(x) }
func (b *Int64) Swap(x int64) int64 { simrt.Yield("atomic.Int64.Swap"); return b.v.Swap(x) }
func (b *Int64) CompareAndSwap(o, n int64) bool {
	simrt.Yield("atomic.Int64.CAS")
	return b.v.CompareAndSwap(o, n)
}

type Uint32 struct{ v atomic.Uint32 }

func (b *Uint32) Load() uint32 { simrt.Yield("atomic.Uint32.Load"); return b.v.Load() }
func (b *Uint32) Store(x uint32) { simrt.Yield("atomic.Uint32.Store"); b.v.Store(x) }
func (b *Uint32) Add(x uint32) uint32 { simrt.Yield("atomic.Uint32.Add"); return b.v.Add(x) }
func (b *Uint32) Swap(x uint32) uint32 { simrt.Yield("atomic.Uint32.Swap"); return b.v.Swap(x) }
func (b *Uint32) CompareAndSwap(o, n uint32) bool {
	simrt.Yield("atomic.Uint32.CAS")
	return b.v.CompareAndSwap(o, n)
}

type Uint64 struct{ v atomic.Uint64 }

func (b *Uint64) Load() uint64 { simrt.Yield("atomic.Uint64.Load"); return b.v.Load() }
func (b *Uint64) Store(x uint64) { simrt.Yield("atomic.Uint64.Store"); b.v.Store(x) }
func (b *Uint64) Add(x uint64) uint64 { simrt.Yield("atomic.Uint64.Add"); return b.v.Add(x) }
func (b *Uint64) Swap(x uint64) uint64 { simrt.Yield("atomic.Uint64.Swap"); return b.v.Swap(x) }
func (b *Uint64) CompareAndSwap(o, n uint64) bool {
	simrt.Yield("atomic.Uint64.CAS")
	return b.v.CompareAndSwap(o, n)
}

type Value struct{ v atomic.Value }

func (b *Value) Load() any { simrt.Yield("atomic.Value.Load"); return b.v.Load() }
func (b *Value) Store(x any) { simrt.Yield("atomic.Value.Store"); b.v.Store(x) }
func (b *Value) Swap(x any) any { simrt.Yield("atomic.Value.Swap"); return b.v.Swap(x) }
func (b *Value) CompareAndSwap(o, n any) bool {
	simrt.Yield("atomic.Value.CAS")
	return b.v.CompareAndSwap(o, n)
}

type Pointer[T any] struct{ v atomic.Pointer[T] }

func (b *Pointer[T]) Load() *T { simrt.Yield("atomic.Pointer.Load"); return b.v.Load() }
func (b *Pointer[T]) Store(x *T) { simrt.Yield("atomic.Pointer.Store"); b.v.Store(x) }
func (b *Pointer[T]) Swap(x *T) *T { simrt.Yield("atomic.Pointer.Swap"); return b.v.Swap(x) }
func (b *Pointer[T]) CompareAndSwap(o, n *T) bool {
	simrt.Yield("atomic.Pointer.CAS")
	return b.v.CompareAndSwap(o, n)
}

func AddInt32(p *int32, d int32) int32 { simrt.Yield("atomic.AddInt32"); return atomic.AddInt32(p, d) }
func AddInt64(p *int64, d int64) int64 { simrt.Yield("atomic.AddInt64"); return atomic.AddInt64(p, d) }
func AddUint32(p *uint32, d uint32) uint32 {
	simrt.Yield("atomic.AddUint32")
	return atomic.AddUint32(p, d)
}
func AddUint64(p *uint64, d uint64) uint64 {
	simrt.Yield("atomic.AddUint64")
	return atomic.AddUint64(p, d)
}
func LoadInt32(p *int32) int32 { simrt.Yield("atomic.LoadInt32"); return atomic.LoadInt32(p) }
func LoadInt64(p *int64) int64 { simrt.Yield("atomic.LoadInt64"); return atomic.LoadInt64(p) }
func LoadUint32(p *uint32) uint32 { simrt.Yield("atomic.LoadUint32"); return atomic.LoadUint32(p) }
func LoadUint64(p *uint64) uint64 { simrt.Yield("atomic.LoadUint64"); return atomic.LoadUint64(p) }
func StoreInt32(p *int32, v int32) { simrt.Yield("atomic.StoreInt32"); atomic.StoreInt32(p, v) }
func StoreInt64(p *int64, v int64) { simrt.Yield("atomic.StoreInt64"); atomic.StoreInt64(p, v) }
func StoreUint32(p *uint32, v uint32) { simrt.Yield("atomic.StoreUint32"); atomic.StoreUint32(p, v) }
func StoreUint64(p *uint64, v uint64) { simrt.Yield("atomic.StoreUint64"); atomic.StoreUint64(p, v) }
func SwapInt32(p *int32, v int32) int32 { simrt.Yield("atomic.SwapInt32"); return atomic.SwapInt32(p, v) }
func SwapInt64(p *int64, v int64) int64 { simrt.Yield("atomic.SwapInt64"); return atomic.SwapInt64(p, v) }
func CompareAndSwapInt32(p *int32, o, n int32) bool {
	simrt.Yield("atomic.CASInt32")
	return atomic.CompareAndSwapInt32(p, o, n)
}
func CompareAndSwapInt64(p *int64, o, n int64) bool {
	simrt.Yield("atomic.CASInt64")
	return atomic.CompareAndSwapInt64(p, o, n)
}
func CompareAndSwapUint32(p *uint32, o, n uint32) bool {
	simrt.Yield("atomic.CASUint32")
	return atomic.CompareAndSwapUint32(p, o, n)
}
func CompareAndSwapUint64(p *uint64, o, n uint64) bool {
	simrt.Yield("atomic.CASUint64")
	return atomic.CompareAndSwapUint64(p, o, n)
}
func LoadPointer(p *unsafe.Pointer) unsafe.Pointer {
	simrt.Yield("atomic.LoadPointer")
	return atomic.LoadPointer(p)
}
func StorePointer(p *unsafe.Pointer, v unsafe.Pointer) {
	simrt.Yield("atomic.StorePointer")
	atomic.StorePointer(p, v)
}
