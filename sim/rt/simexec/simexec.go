// Package simexec wraps os/exec so that the stdout pipe of a child process
// (git cat-file --batch) can deliver its bytes in fault-stream-chosen chunks,
// end early, or have the child killed mid-stream.
package simexec

import (
	"context"
	"io"
	"os/exec"
	"sync"
)

// Plan describes the stream faults applied to every StdoutPipe while set.
type Plan struct {
	// Chunk returns the maximum number of bytes the next Read may deliver
	// (>=1). nil = unlimited.
	Chunk func() int
	// EOFAt >= 0: the stream reports EOF after this many bytes (truncated output).
	EOFAt int64
	// KillAt >= 0: the child is killed once this many bytes were delivered.
	KillAt int64
	// Stats
	Reads, Bytes int64
	Truncated    bool
	Killed       bool
}

var (
	mu   sync.Mutex
	plan *Plan
)

// SetPlan installs (or clears, with nil) the plan for subsequently created pipes.
func SetPlan(p *Plan) { mu.Lock(); plan = p; mu.Unlock() }

type Cmd struct {
	*exec.Cmd
}

func Command(name string, arg ...string) *Cmd { return &Cmd{exec.Command(name, arg...)} }

func CommandContext(ctx context.Context, name string, arg ...string) *Cmd {
	return &Cmd{exec.CommandContext(ctx, name, arg...)}
}

type faultyReader struct {
	rc  io.ReadCloser
	p   *Plan
	cmd *exec.Cmd
	n   int64
}

func (f *faultyReader) Read(b []byte) (int, error) {
	if f.p.EOFAt >= 0 && f.n >= f.p.EOFAt {
		f.p.Truncated = true
		return 0, io.EOF
	}
	if f.p.KillAt >= 0 && f.n >= f.p.KillAt && !f.p.Killed {
		f.p.Killed = true
		if f.cmd.Process != nil {
			f.cmd.Process.Kill()
		}
		// whatever the pipe still holds is lost with the process from the reader's view
		return 0, io.EOF
	}
	if len(b) == 0 {
		return f.rc.Read(b)
	}
	max := len(b)
	if f.p.Chunk != nil {
		if c := f.p.Chunk(); c >= 1 && c < max {
			max = c
		}
	}
	if f.p.EOFAt >= 0 && int64(max) > f.p.EOFAt-f.n {
		max = int(f.p.EOFAt - f.n)
	}
	if f.p.KillAt >= 0 && !f.p.Killed && int64(max) > f.p.KillAt-f.n {
		max = int(f.p.KillAt - f.n)
	}
	if max <= 0 {
		max = 1
	}
	n, err := f.rc.Read(b[:max])
	f.n += int64(n)
	f.p.Reads++
	f.p.Bytes += int64(n)
	return n, err
}

func (f *faultyReader) Close() error { return f.rc.Close() }

func (c *Cmd) StdoutPipe() (io.ReadCloser, error) {
	rc, err := c.Cmd.StdoutPipe()
	if err != nil {
		return nil, err
	}
	mu.Lock()
	p := plan
	mu.Unlock()
	if p == nil {
		return rc, nil
	}
	return &faultyReader{rc: rc, p: p, cmd: c.Cmd}, nil
}
