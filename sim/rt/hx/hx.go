// Package hx is the worker side of the harness protocol: it loops over run
// indices, executes one simulated run per index, aggregates coverage,
// minimises and records violations, and replays replay files.
package hx

import (
	"encoding/json"
	"fmt"
	"os"
	"runtime"
	"runtime/debug"
	"sort"
	"strconv"
	"strings"
	"testing"
	"testing/synctest"
	"time"

	"github.com/sourcegraph/zoekt/internal/verifsim/simrt"
)

// Violation is what a harness reports when the property's oracle fails.
type Violation struct {
	// Sig = kind|site-class|sub-mode. The property id is prepended by hx.
	Sig    string `json:"sig"`
	Detail string `json:"detail"`
}

// Result of one run.
type Result struct {
	Hash       uint64
	Steps      int
	Switches   int
	SimTime    time.Duration
	Nontrivial bool
	Violation  *Violation
	// Violations allows a run (e.g. an enumeration scenario) to report several.
	Violations []Violation
	HarnessErr string
	Probes     map[string]int
	Faults     map[string]int // fault kind -> fired
	Offered    map[string]int // fault kind -> a site was reached
	Pairs      map[uint64]struct{}
	Sites      map[string]int
	Sample     any
	Trace      []string
	// Evals counts executions inside this run (enumeration harnesses); 0 means 1.
	Evals int
	// Distinct lets enumeration harnesses report several distinct non-trivial case hashes.
	Distinct []uint64
}

// RunFn executes one run from the tape. keepTrace asks for an event trace.
type RunFn func(t *testing.T, tp *simrt.Tape, keepTrace bool) Result

type harness struct {
	name string
	prop string
	fn   RunFn
}

var registry = map[string]harness{}

// Register a harness under a name (usually the property id, optionally with a
// sub-mode suffix such as "C19/gc").
func Register(name, property string, fn RunFn) { registry[name] = harness{name, property, fn} }

type violationOut struct {
	Property  string      `json:"property"`
	Harness   string      `json:"harness"`
	BatchSeed uint64      `json:"batch_seed"`
	Run       uint64      `json:"run"`
	RunSeed   uint64      `json:"run_seed"`
	Sig       string      `json:"sig"`
	Detail    string      `json:"detail"`
	Hash      string      `json:"hash"`
	Tapes     [][]uint32  `json:"tapes"`
	OrigSizes map[string]int `json:"orig_sizes,omitempty"`
	MinSizes  map[string]int `json:"min_sizes,omitempty"`
	Minimised bool        `json:"minimised"`
	Trace     []string    `json:"trace_tail,omitempty"`
	Sample    any         `json:"sample,omitempty"`
}

type workerOut struct {
	Harness      string         `json:"harness"`
	Property     string         `json:"property"`
	Runs         int            `json:"runs"`
	Evals        int            `json:"evals"`
	Steps        int            `json:"steps"`
	Switches     int            `json:"switches"`
	SimMs        int64          `json:"sim_ms"`
	Hashes       []string       `json:"nontrivial_hashes"`
	Probes       map[string]int `json:"probes"`
	Faults       map[string]int `json:"faults_fired"`
	Offered      map[string]int `json:"faults_offered"`
	Pairs        []string       `json:"pairs"`
	Sites        map[string]int `json:"sites"`
	Violations   []violationOut `json:"violations"`
	ViolationN   int            `json:"violation_count"`
	SigCounts    map[string]int `json:"sig_counts"`
	HarnessErrs  []string       `json:"harness_errors"`
	Samples      []any          `json:"samples"`
	WallS        float64        `json:"wall_s"`
	DetMismatch  []string       `json:"det_mismatch,omitempty"`
	DetChecked   int            `json:"det_checked,omitempty"`
	StoppedEarly bool           `json:"stopped_early"`
	Next         uint64         `json:"next,omitempty"`
}

func envU(name string, def uint64) uint64 {
	if v := os.Getenv(name); v != "" {
		x, err := strconv.ParseUint(v, 10, 64)
		if err == nil {
			return x
		}
	}
	return def
}

// Bubble runs f inside a synctest bubble and swallows the end-of-bubble
// deadlock panic that leftover parked tasks cause when a run is stopped early.
func Bubble(t *testing.T, f func(t *testing.T)) (panicked any) {
	defer func() {
		if r := recover(); r != nil {
			s := fmt.Sprint(r)
			if strings.Contains(s, "deadlock") {
				return
			}
			panicked = fmt.Sprintf("%v\n%s", r, debug.Stack())
		}
	}()
	synctest.Test(t, f)
	return nil
}

// Sim runs main under the scheduler in a bubble and fills the generic parts
// of a Result.
func Sim(t *testing.T, tp *simrt.Tape, cfg simrt.Config, main func()) (*simrt.Sim, Result) {
	var s *simrt.Sim
	p := Bubble(t, func(t *testing.T) {
		s = simrt.Run(tp, cfg, main)
	})
	var r Result
	if s == nil {
		r.HarnessErr = fmt.Sprintf("simulation did not start: %v", p)
		return nil, r
	}
	r.Hash = s.Hash()
	r.Steps = s.Steps
	r.Switches = s.Switches
	r.SimTime = s.SimTime()
	r.Probes = s.Probes()
	r.Pairs = s.Pairs()
	r.Sites = s.Sites()
	r.Trace = s.Trace()
	if p != nil {
		r.HarnessErr = fmt.Sprintf("panic on scheduler goroutine: %v", p)
	}
	if s.Uncontrolled > 0 {
		r.HarnessErr = fmt.Sprintf("uncontrolled_wake=%d (a source of nondeterminism is not behind a seam)", s.Uncontrolled)
	}
	return s, r
}

func tapesOf(tp *simrt.Tape) [][]uint32 {
	out := make([][]uint32, simrt.NStreams)
	for i := range out {
		out[i] = append([]uint32{}, tp.Rec[i]...)
	}
	return out
}

func replayTape(seed uint64, tapes [][]uint32) *simrt.Tape {
	var v [simrt.NStreams][]uint32
	for i := range v {
		if i < len(tapes) && tapes[i] != nil {
			v[i] = tapes[i]
		} else {
			v[i] = []uint32{}
		}
	}
	return simrt.ReplayTape(seed, v)
}

func sizes(tapes [][]uint32) map[string]int {
	m := map[string]int{}
	for i, tp := range tapes {
		nz := 0
		for _, v := range tp {
			if v != 0 {
				nz++
			}
		}
		m[simrt.StreamNames[i]+"_len"] = len(tp)
		m[simrt.StreamNames[i]+"_nonzero"] = nz
	}
	return m
}

func firstViolation(r Result) *Violation {
	if r.Violation != nil {
		return r.Violation
	}
	if len(r.Violations) > 0 {
		return &r.Violations[0]
	}
	return nil
}

func hasSig(r Result, sig string) bool {
	if r.Violation != nil && r.Violation.Sig == sig {
		return true
	}
	for _, v := range r.Violations {
		if v.Sig == sig {
			return true
		}
	}
	return false
}

// minimise shrinks tapes while the same signature persists.
func minimise(t *testing.T, h harness, seed uint64, tapes [][]uint32, sig string, budget time.Duration) [][]uint32 {
	deadline := time.Now().Add(budget)
	try := func(c [][]uint32) bool {
		if time.Now().After(deadline) {
			return false
		}
		r := h.fn(t, replayTape(seed, c), false)
		return r.HarnessErr == "" && hasSig(r, sig)
	}
	clone := func(c [][]uint32) [][]uint32 {
		o := make([][]uint32, len(c))
		for i := range c {
			o[i] = append([]uint32{}, c[i]...)
		}
		return o
	}
	curT := clone(tapes)
	// order: fault, sched, map, gen
	for _, st := range []int{simrt.SFault, simrt.SSched, simrt.SMap, simrt.SGen} {
		if len(curT[st]) == 0 {
			continue
		}
		// all zero
		c := clone(curT)
		for i := range c[st] {
			c[st][i] = 0
		}
		if try(c) {
			curT = c
			curT[st] = curT[st][:0]
			continue
		}
		// chunk zeroing
		for chunk := (len(curT[st]) + 1) / 2; chunk >= 1; chunk /= 2 {
			for off := 0; off < len(curT[st]); off += chunk {
				if time.Now().After(deadline) {
					break
				}
				end := off + chunk
				if end > len(curT[st]) {
					end = len(curT[st])
				}
				allz := true
				for _, v := range curT[st][off:end] {
					if v != 0 {
						allz = false
					}
				}
				if allz {
					continue
				}
				c := clone(curT)
				for i := off; i < end; i++ {
					c[st][i] = 0
				}
				if try(c) {
					curT = c
				}
			}
			if chunk == 1 {
				break
			}
		}
		// for gen: also try lowering individual values
		if st == simrt.SGen {
			for i := range curT[st] {
				if time.Now().After(deadline) {
					break
				}
				for curT[st][i] > 0 {
					c := clone(curT)
					c[st][i] = curT[st][i] / 2
					if !try(c) {
						break
					}
					curT = c
				}
			}
		}
		// drop trailing zeros
		n := len(curT[st])
		for n > 0 && curT[st][n-1] == 0 {
			n--
		}
		curT[st] = curT[st][:n]
	}
	return curT
}

func hex(h uint64) string { return strconv.FormatUint(h, 16) }

// Main is called from the single TestVerif function of a harness package.
func Main(t *testing.T) {
	name := os.Getenv("VERIF_HARNESS")
	if name == "" {
		t.Skip("VERIF_HARNESS not set")
	}
	h, ok := registry[name]
	if !ok {
		fmt.Fprintf(os.Stderr, "hx: unknown harness %q\n", name)
		os.Exit(2)
	}
	debug.SetGCPercent(int(envU("VERIF_GCPERCENT", 200)))
	if os.Getenv("VERIF_GCOFF") != "" {
		// gc-mode harnesses: collections (and therefore finalizers) only happen at
		// scheduler-chosen points; the memory limit stays as a safety net
		debug.SetGCPercent(-1)
	}
	debug.SetMemoryLimit(int64(envU("VERIF_MEMLIMIT_MB", 4096)) << 20)
	out := os.Getenv("VERIF_OUT")
	if rp := os.Getenv("VERIF_REPLAY"); rp != "" {
		replay(t, h, rp, out)
		return
	}
	batch := envU("VERIF_SEED", 1)
	from := envU("VERIF_RUN_FROM", 0)
	to := envU("VERIF_RUN_TO", 100)
	stride := envU("VERIF_RUN_STRIDE", 1)
	det := os.Getenv("VERIF_MODE") == "det"
	deadline := time.Now().Add(time.Duration(envU("VERIF_DEADLINE_S", 3600)) * time.Second)
	minBudget := time.Duration(envU("VERIF_MIN_S", 30)) * time.Second
	start := time.Now()
	wo := workerOut{Harness: name, Property: h.prop, Probes: map[string]int{}, Faults: map[string]int{}, Offered: map[string]int{}, Sites: map[string]int{}, SigCounts: map[string]int{}}
	hashes := map[uint64]struct{}{}
	pairs := map[uint64]struct{}{}
	minimisedSigs := map[string]bool{}
	progress := os.Getenv("VERIF_PROGRESS")
	skip := map[uint64]bool{}
	for _, f := range strings.Split(os.Getenv("VERIF_SKIP"), ",") {
		if x, err := strconv.ParseUint(strings.TrimSpace(f), 10, 64); err == nil {
			skip[x] = true
		}
	}
	lastCkpt := time.Now()
	for i := from; i < to; i += stride {
		if skip[i] {
			continue
		}
		if progress != "" {
			if out != "" && time.Since(lastCkpt) > 2*time.Second {
				// checkpoint: what has been covered so far, and where to resume
				lastCkpt = time.Now()
				ck := wo
				ck.Next = i
				ck.Hashes = nil
				for k := range hashes {
					ck.Hashes = append(ck.Hashes, hex(k))
				}
				ck.WallS = time.Since(start).Seconds()
				if b, err := json.Marshal(ck); err == nil {
					os.WriteFile(out+".ckpt.tmp", b, 0o644)
					os.Rename(out+".ckpt.tmp", out+".ckpt")
				}
			}
			os.WriteFile(progress, []byte(strconv.FormatUint(i, 10)), 0o644)
		}
		if time.Now().After(deadline) {
			wo.StoppedEarly = true
			break
		}
		seed := simrt.RunSeed(batch, name, i)
		tp := simrt.NewTape(seed)
		detTrace := det && os.Getenv("VERIF_DET_TRACE") != ""
		r := h.fn(t, tp, detTrace)
		wo.Runs++
		if r.Evals > 0 {
			wo.Evals += r.Evals
		} else {
			wo.Evals++
		}
		wo.Steps += r.Steps
		wo.Switches += r.Switches
		wo.SimMs += int64(r.SimTime / time.Millisecond)
		for k, v := range r.Probes {
			wo.Probes[k] += v
		}
		for k, v := range r.Faults {
			wo.Faults[k] += v
		}
		for k, v := range r.Offered {
			wo.Offered[k] += v
		}
		for k := range r.Pairs {
			pairs[k] = struct{}{}
		}
		for k, v := range r.Sites {
			wo.Sites[k] += v
		}
		if r.Nontrivial {
			hashes[r.Hash] = struct{}{}
		}
		for _, d := range r.Distinct {
			hashes[d] = struct{}{}
		}
		if len(wo.Samples) < 3 && r.Sample != nil && (r.Nontrivial || len(r.Distinct) > 0) {
			wo.Samples = append(wo.Samples, r.Sample)
		}
		if r.HarnessErr != "" {
			if len(wo.HarnessErrs) < 5 {
				wo.HarnessErrs = append(wo.HarnessErrs, fmt.Sprintf("run %d seed %d: %s", i, seed, r.HarnessErr))
			}
			continue
		}
		if det {
			r2 := h.fn(t, simrt.NewTape(seed), detTrace)
			wo.DetChecked++
			v1, v2 := firstViolation(r), firstViolation(r2)
			s1, s2 := "", ""
			if v1 != nil {
				s1 = v1.Sig
			}
			if v2 != nil {
				s2 = v2.Sig
			}
			if r.Hash != r2.Hash || s1 != s2 || r.Steps != r2.Steps {
				wo.DetMismatch = append(wo.DetMismatch, fmt.Sprintf("run %d seed %d: hash %x/%x steps %d/%d sig %q/%q", i, seed, r.Hash, r2.Hash, r.Steps, r2.Steps, s1, s2))
				if detTrace {
					// debugging aid: show where the two executions of this seed part ways
					a, b := r, r2
					k := 0
					for k < len(a.Trace) && k < len(b.Trace) && a.Trace[k] == b.Trace[k] {
						k++
					}
					fmt.Printf("DETTRACE run %d: traces differ at line %d (lengths %d/%d)\n", i, k, len(a.Trace), len(b.Trace))
					for j := max(0, k-8); j < k+8; j++ {
						x, y := "", ""
						if j < len(a.Trace) {
							x = a.Trace[j]
						}
						if j < len(b.Trace) {
							y = b.Trace[j]
						}
						fmt.Printf("DETTRACE  %5d | %-70s | %s\n", j, x, y)
					}
				}
			}
			if os.Getenv("VERIF_DET_DUMP") != "" {
				fmt.Printf("DET %d %x %d %s\n", i, r.Hash, r.Steps, s1)
			}
		}
		all := r.Violations
		if r.Violation != nil {
			all = append([]Violation{*r.Violation}, all...)
		}
		seen := map[string]bool{}
		for _, v := range all {
			sig := h.prop + "|" + v.Sig
			wo.ViolationN++
			wo.SigCounts[sig]++
			if seen[v.Sig] || minimisedSigs[v.Sig] {
				continue
			}
			seen[v.Sig] = true
			minimisedSigs[v.Sig] = true
			tapes := tapesOf(tp)
			vo := violationOut{Property: h.prop, Harness: name, BatchSeed: batch, Run: i, RunSeed: seed, Sig: sig, Detail: v.Detail, Hash: hex(r.Hash), Tapes: tapes, Sample: r.Sample}
			vo.OrigSizes = sizes(tapes)
			if minBudget > 0 {
				m := minimise(t, h, seed, tapes, v.Sig, minBudget)
				// re-run minimised with trace to get the definitive detail and hash
				rr := h.fn(t, replayTape(seed, m), true)
				if hasSig(rr, v.Sig) && rr.HarnessErr == "" {
					vo.Tapes = m
					vo.MinSizes = sizes(m)
					vo.Minimised = true
					vo.Hash = hex(rr.Hash)
					for _, x := range append([]Violation{}, append(rr.Violations, derefV(rr.Violation)...)...) {
						if x.Sig == v.Sig {
							vo.Detail = x.Detail
						}
					}
					vo.Sample = rr.Sample
					tr := rr.Trace
					if len(tr) > 200 {
						tr = tr[len(tr)-200:]
					}
					vo.Trace = tr
				}
			}
			wo.Violations = append(wo.Violations, vo)
		}
	}
	for k := range hashes {
		wo.Hashes = append(wo.Hashes, hex(k))
	}
	sort.Strings(wo.Hashes)
	for k := range pairs {
		wo.Pairs = append(wo.Pairs, hex(k))
	}
	sort.Strings(wo.Pairs)
	wo.WallS = time.Since(start).Seconds()
	b, _ := json.Marshal(wo)
	if out != "" {
		if err := os.WriteFile(out, b, 0o644); err != nil {
			fmt.Fprintln(os.Stderr, "hx: write:", err)
			os.Exit(2)
		}
	} else {
		fmt.Println(string(b))
	}
	runtime.KeepAlive(t)
}

func derefV(v *Violation) []Violation {
	if v == nil {
		return nil
	}
	return []Violation{*v}
}

type replayOut struct {
	Reproduced bool     `json:"reproduced"`
	SameHash   bool     `json:"same_hash"`
	Sig        string   `json:"sig"`
	GotSigs    []string `json:"got_sigs"`
	Detail     string   `json:"detail"`
	Hash       string   `json:"hash"`
	HarnessErr string   `json:"harness_err,omitempty"`
	Trace      []string `json:"trace_tail,omitempty"`
}

func replay(t *testing.T, h harness, path, out string) {
	b, err := os.ReadFile(path)
	if err != nil {
		fmt.Fprintln(os.Stderr, "hx: replay:", err)
		os.Exit(2)
	}
	var vo violationOut
	if err := json.Unmarshal(b, &vo); err != nil {
		fmt.Fprintln(os.Stderr, "hx: replay:", err)
		os.Exit(2)
	}
	r := h.fn(t, replayTape(vo.RunSeed, vo.Tapes), true)
	ro := replayOut{Sig: vo.Sig, Hash: hex(r.Hash), HarnessErr: r.HarnessErr}
	all := append(derefV(r.Violation), r.Violations...)
	for _, v := range all {
		s := h.prop + "|" + v.Sig
		ro.GotSigs = append(ro.GotSigs, s)
		if s == vo.Sig {
			ro.Reproduced = true
			ro.Detail = v.Detail
		}
	}
	ro.SameHash = ro.Hash == vo.Hash
	tr := r.Trace
	if full := os.Getenv("VERIF_TRACE_OUT"); full != "" {
		os.WriteFile(full, []byte(strings.Join(tr, "\n")+"\n"), 0o644)
	}
	if len(tr) > 200 {
		tr = tr[len(tr)-200:]
	}
	ro.Trace = tr
	ob, _ := json.MarshalIndent(ro, "", " ")
	if out != "" {
		os.WriteFile(out, ob, 0o644)
	}
	fmt.Println(string(ob))
}

// ExitHang is called by a harness whose case exceeded its real-time watchdog:
// the goroutine cannot be killed, so the worker exits and the orchestrator
// re-runs the case alone in a fresh process to confirm the hang.
func ExitHang(detail string) {
	fmt.Fprintf(os.Stderr, "watchdog: case did not finish: %s\n", detail)
	os.Exit(3)
}
