// Package simos is the simulated-disk seam. The real file system (a private
// tmpfs directory) is underneath; every operation of an instrumented package
// is counted and may be failed, or be the point at which the calling
// simulated process dies (kill -9 semantics: completed system calls persist,
// nothing afterwards happens, deferred cleanup has no effect).
package simos

import (
	"errors"
	"io"
	"io/fs"
	"os"
	"runtime"
	"sync"
	"syscall"
	"time"

	"github.com/sourcegraph/zoekt/internal/verifsim/simrt"
)

// Op is one file-system operation performed by a process.
type Op struct {
	K    int    `json:"k"`
	Name string `json:"op"`
	Path string `json:"path"`
	Mut  bool   `json:"mut"`
	Size int    `json:"size,omitempty"`
}

// Plan says what to inject into a process.
type Plan struct {
	CrashAt      int   // die before op K (1-based over all ops); 0 = never
	CrashInWrite bool  // if op K is a write: persist the first half, then die
	FailAt       int   // op K fails with FailErr (no effect)
	FailErr      error // default EIO
	FailShort    bool  // if op K is a write: short write, then error
	FailFrom     int   // every op with K >= FailFrom of kind FailKind fails (disk full)
	FailKind     string
	FailKinds    map[string]bool // with FailFrom: the operation kinds that fail (overrides FailKind)
}

// State is the per-process bookkeeping (stored in simrt.Proc.Data).
type State struct {
	mu    sync.Mutex
	Log   []Op
	Plan  Plan
	Fired map[string]int // fault kind -> times fired
}

func NewProc(name string, plan Plan) *simrt.Proc {
	return &simrt.Proc{Name: name, Data: &State{Plan: plan, Fired: map[string]int{}}}
}

func StateOf(p *simrt.Proc) *State {
	if p == nil {
		return nil
	}
	s, _ := p.Data.(*State)
	return s
}

var seqMu sync.Mutex
var seqProc *simrt.Proc

// SetSeqProc sets the process used by goroutines that are not simulation tasks
// (sequential harnesses). nil disables all interception.
func SetSeqProc(p *simrt.Proc) { seqMu.Lock(); seqProc = p; seqMu.Unlock() }

func curProc() *simrt.Proc {
	if p := simrt.SelfProc(); p != nil {
		return p
	}
	seqMu.Lock()
	defer seqMu.Unlock()
	return seqProc
}

// Watch is called after every successful mutating operation (for simfsn).
var Watch func(op Op)

var ErrInjected = syscall.EIO

// DiskFull is the set of operation kinds that fail when the disk is full.
var DiskFull = map[string]bool{"write": true, "writefile": true, "createtemp": true, "create": true, "mkdir": true, "mkdirall": true, "symlink": true, "link": true}


func die(p *simrt.Proc) {
	if simrt.Self() != nil {
		simrt.Kill(p)
	} else {
		p.Dead = true
	}
	runtime.Goexit()
}

// begin registers an op. It returns (state, op index, error to inject,
// crashInWrite). It never returns if the process is or becomes dead.
func begin(name, path string, mut bool, size int) (*simrt.Proc, error, bool) {
	if simrt.Self() != nil {
		simrt.Yield("os." + name)
	}
	p := curProc()
	if p == nil {
		return nil, nil, false
	}
	st := StateOf(p)
	if st == nil {
		return nil, nil, false
	}
	st.mu.Lock()
	if p.Dead {
		st.mu.Unlock()
		runtime.Goexit()
	}
	k := len(st.Log) + 1
	pl := st.Plan
	if pl.CrashAt == k {
		if pl.CrashInWrite && name == "write" && size > 1 {
			st.Fired["kill-in-write"]++
			st.Log = append(st.Log, Op{k, name, path, mut, size})
			st.mu.Unlock()
			return p, nil, true
		}
		st.Fired["kill"]++
		st.mu.Unlock()
		die(p)
	}
	st.Log = append(st.Log, Op{k, name, path, mut, size})
	var err error
	failFrom := pl.FailFrom > 0 && k >= pl.FailFrom
	if failFrom && pl.FailKinds != nil {
		failFrom = pl.FailKinds[name]
	} else if failFrom {
		failFrom = pl.FailKind == "" || pl.FailKind == name
	}
	if pl.FailAt == k || failFrom {
		e := pl.FailErr
		if e == nil {
			e = ErrInjected
		}
		st.Fired["fail-"+name]++
		err = &fs.PathError{Op: name, Path: path, Err: e}
	}
	st.mu.Unlock()
	return p, err, false
}

func notify(name, path string) {
	if w := Watch; w != nil {
		w(Op{Name: name, Path: path, Mut: true})
	}
}

type File struct {
	*os.File
	wrote bool
}

type FileMode = os.FileMode
type FileInfo = os.FileInfo

// Wrap adopts an *os.File opened elsewhere (harness use).
func Wrap(f *os.File) *File { return &File{File: f} }

func wrap(f *os.File, err error) (*File, error) {
	if err != nil {
		return nil, err
	}
	return &File{File: f}, nil
}

func Open(name string) (*File, error) {
	if _, err, _ := begin("open", name, false, 0); err != nil {
		return nil, err
	}
	return wrap(os.Open(name))
}

func OpenFile(name string, flag int, perm os.FileMode) (*File, error) {
	mut := flag&(os.O_CREATE|os.O_TRUNC|os.O_WRONLY|os.O_RDWR|os.O_APPEND) != 0
	if _, err, _ := begin("openfile", name, mut, 0); err != nil {
		return nil, err
	}
	f, err := wrap(os.OpenFile(name, flag, perm))
	if err == nil && mut {
		notify("openfile", name)
	}
	return f, err
}

func Create(name string) (*File, error) {
	if _, err, _ := begin("create", name, true, 0); err != nil {
		return nil, err
	}
	f, err := wrap(os.Create(name))
	if err == nil {
		notify("create", name)
	}
	return f, err
}

func CreateTemp(dir, pattern string) (*File, error) {
	if _, err, _ := begin("createtemp", dir+"/"+pattern, true, 0); err != nil {
		return nil, err
	}
	f, err := wrap(os.CreateTemp(dir, pattern))
	if err == nil {
		notify("create", f.Name())
	}
	return f, err
}

func ReadFile(name string) ([]byte, error) {
	if _, err, _ := begin("readfile", name, false, 0); err != nil {
		return nil, err
	}
	return os.ReadFile(name)
}

func Rename(a, b string) error {
	if _, err, _ := begin("rename", a+" -> "+b, true, 0); err != nil {
		return err
	}
	err := os.Rename(a, b)
	if err == nil {
		notify("rename", b)
	}
	return err
}

func Remove(a string) error {
	if _, err, _ := begin("remove", a, true, 0); err != nil {
		return err
	}
	err := os.Remove(a)
	if err == nil {
		notify("remove", a)
	}
	return err
}

func RemoveAll(a string) error {
	if _, err, _ := begin("removeall", a, true, 0); err != nil {
		return err
	}
	err := os.RemoveAll(a)
	if err == nil {
		notify("remove", a)
	}
	return err
}

func Mkdir(p string, m os.FileMode) error {
	if _, err, _ := begin("mkdir", p, true, 0); err != nil {
		return err
	}
	return os.Mkdir(p, m)
}

func MkdirAll(p string, m os.FileMode) error {
	if fi, err := os.Stat(p); err == nil && fi.IsDir() {
		return nil // no mutation
	}
	if _, err, _ := begin("mkdirall", p, true, 0); err != nil {
		return err
	}
	return os.MkdirAll(p, m)
}

func now() time.Time { return time.Now() }

func WriteFile(name string, data []byte, perm os.FileMode) error {
	p, err, inWrite := begin("writefile", name, true, len(data))
	if err != nil {
		return err
	}
	_ = inWrite
	err = os.WriteFile(name, data, perm)
	if err == nil {
		t := now()
		os.Chtimes(name, t, t)
		notify("write", name)
	}
	_ = p
	return err
}

func Chtimes(name string, a, m time.Time) error {
	if _, err, _ := begin("chtimes", name, true, 0); err != nil {
		return err
	}
	err := os.Chtimes(name, a, m)
	if err == nil {
		notify("chtimes", name)
	}
	return err
}

func Chmod(name string, m os.FileMode) error {
	if _, err, _ := begin("chmod", name, true, 0); err != nil {
		return err
	}
	return os.Chmod(name, m)
}

func Symlink(a, b string) error {
	if _, err, _ := begin("symlink", a+" -> "+b, true, 0); err != nil {
		return err
	}
	return os.Symlink(a, b)
}

func Link(a, b string) error {
	if _, err, _ := begin("link", a+" -> "+b, true, 0); err != nil {
		return err
	}
	err := os.Link(a, b)
	if err == nil {
		notify("create", b)
	}
	return err
}

func Truncate(name string, size int64) error {
	if _, err, _ := begin("truncate", name, true, 0); err != nil {
		return err
	}
	return os.Truncate(name, size)
}

func (f *File) Write(b []byte) (int, error) {
	p, err, inWrite := begin("write", f.File.Name(), true, len(b))
	if inWrite {
		f.File.Write(b[:len(b)/2])
		die(p)
	}
	if err != nil {
		if st := StateOf(p); st != nil && st.Plan.FailShort && len(b) > 1 {
			n, _ := f.File.Write(b[:len(b)/2])
			f.wrote = true
			return n, err
		}
		return 0, err
	}
	f.wrote = true
	return f.File.Write(b)
}

func (f *File) WriteString(s string) (int, error) { return f.Write([]byte(s)) }

func (f *File) WriteAt(b []byte, off int64) (int, error) {
	p, err, inWrite := begin("write", f.File.Name(), true, len(b))
	if inWrite {
		f.File.WriteAt(b[:len(b)/2], off)
		die(p)
	}
	if err != nil {
		return 0, err
	}
	f.wrote = true
	return f.File.WriteAt(b, off)
}

// ReadFrom must not let io.Copy bypass Write via the embedded *os.File.
func (f *File) ReadFrom(r io.Reader) (int64, error) {
	buf := make([]byte, 32*1024)
	var n int64
	for {
		m, err := r.Read(buf)
		if m > 0 {
			w, werr := f.Write(buf[:m])
			n += int64(w)
			if werr != nil {
				return n, werr
			}
		}
		if errors.Is(err, io.EOF) {
			return n, nil
		}
		if err != nil {
			return n, err
		}
	}
}

func (f *File) Chmod(m os.FileMode) error {
	if _, err, _ := begin("fchmod", f.File.Name(), true, 0); err != nil {
		return err
	}
	return f.File.Chmod(m)
}

func (f *File) Truncate(size int64) error {
	if _, err, _ := begin("ftruncate", f.File.Name(), true, 0); err != nil {
		return err
	}
	f.wrote = true
	return f.File.Truncate(size)
}

func (f *File) Sync() error {
	if _, err, _ := begin("fsync", f.File.Name(), false, 0); err != nil {
		return err
	}
	return f.File.Sync()
}

func (f *File) Close() error {
	p := curProc()
	if p != nil && p.Dead {
		f.File.Close() // the kernel closes descriptors of a dead process
		runtime.Goexit()
	}
	if simrt.Self() != nil {
		simrt.Yield("os.close")
	}
	err := f.File.Close()
	if f.wrote && err == nil {
		t := now()
		os.Chtimes(f.File.Name(), t, t)
		notify("write", f.File.Name())
	}
	return err
}
