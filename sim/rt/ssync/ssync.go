// Package ssync mirrors the parts of package sync that zoekt uses, with every
// operation a scheduling point and every blocked waiter known to simrt.
// Outside a simulation (or on a non-task goroutine) the real primitive is used.
package ssync

import (
	"sync"

	"github.com/sourcegraph/zoekt/internal/verifsim/simrt"
)

type Locker = sync.Locker
type Map = sync.Map

func OnceFunc(f func()) func() { return sync.OnceFunc(f) }

func OnceValue[T any](f func() T) func() T {
	var once Once
	var v T
	return func() T {
		once.Do(func() { v = f() })
		return v
	}
}

func OnceValues[T1, T2 any](f func() (T1, T2)) func() (T1, T2) {
	var once Once
	var v1 T1
	var v2 T2
	return func() (T1, T2) {
		once.Do(func() { v1, v2 = f() })
		return v1, v2
	}
}

func wakeAll(w *[]*simrt.Task) {
	ws := *w
	*w = nil
	for _, x := range ws {
		simrt.Wake(x)
	}
}

type Mutex struct {
	real    sync.Mutex
	held    bool
	waiters []*simrt.Task
}

func (m *Mutex) Lock() {
	t := simrt.Self()
	if t == nil {
		m.real.Lock()
		return
	}
	simrt.Yield("Mutex.Lock")
	for m.held {
		m.waiters = append(m.waiters, t)
		simrt.BlockSim(t, "Mutex.Lock(blocked)")
	}
	m.held = true
}

func (m *Mutex) TryLock() bool {
	t := simrt.Self()
	if t == nil {
		return m.real.TryLock()
	}
	simrt.Yield("Mutex.TryLock")
	if m.held {
		return false
	}
	m.held = true
	return true
}

func (m *Mutex) Unlock() {
	t := simrt.Self()
	if t == nil {
		m.real.Unlock()
		return
	}
	if !m.held {
		panic("sync: unlock of unlocked mutex")
	}
	m.held = false
	wakeAll(&m.waiters)
	simrt.Yield("Mutex.Unlock")
}

type RWMutex struct {
	real    sync.RWMutex
	writer  bool
	readers int
	waiters []*simrt.Task
}

func (m *RWMutex) Lock() {
	t := simrt.Self()
	if t == nil {
		m.real.Lock()
		return
	}
	simrt.Yield("RWMutex.Lock")
	for m.writer || m.readers > 0 {
		m.waiters = append(m.waiters, t)
		simrt.BlockSim(t, "RWMutex.Lock(blocked)")
	}
	m.writer = true
}

func (m *RWMutex) TryLock() bool {
	t := simrt.Self()
	if t == nil {
		return m.real.TryLock()
	}
	simrt.Yield("RWMutex.TryLock")
	if m.writer || m.readers > 0 {
		return false
	}
	m.writer = true
	return true
}

func (m *RWMutex) Unlock() {
	t := simrt.Self()
	if t == nil {
		m.real.Unlock()
		return
	}
	if !m.writer {
		panic("sync: Unlock of unlocked RWMutex")
	}
	m.writer = false
	wakeAll(&m.waiters)
	simrt.Yield("RWMutex.Unlock")
}

func (m *RWMutex) RLock() {
	t := simrt.Self()
	if t == nil {
		m.real.RLock()
		return
	}
	simrt.Yield("RWMutex.RLock")
	for m.writer {
		m.waiters = append(m.waiters, t)
		simrt.BlockSim(t, "RWMutex.RLock(blocked)")
	}
	m.readers++
}

func (m *RWMutex) TryRLock() bool {
	t := simrt.Self()
	if t == nil {
		return m.real.TryRLock()
	}
	simrt.Yield("RWMutex.TryRLock")
	if m.writer {
		return false
	}
	m.readers++
	return true
}

func (m *RWMutex) RUnlock() {
	t := simrt.Self()
	if t == nil {
		m.real.RUnlock()
		return
	}
	if m.readers <= 0 {
		panic("sync: RUnlock of unlocked RWMutex")
	}
	m.readers--
	if m.readers == 0 {
		wakeAll(&m.waiters)
	}
	simrt.Yield("RWMutex.RUnlock")
}

func (m *RWMutex) RLocker() sync.Locker { return (*rlocker)(m) }

type rlocker RWMutex

func (r *rlocker) Lock()   { (*RWMutex)(r).RLock() }
func (r *rlocker) Unlock() { (*RWMutex)(r).RUnlock() }

type WaitGroup struct {
	real    sync.WaitGroup
	n       int
	waiters []*simrt.Task
}

func (w *WaitGroup) Add(d int) {
	t := simrt.Self()
	if t == nil {
		w.real.Add(d)
		return
	}
	simrt.Yield("WaitGroup.Add")
	w.n += d
	if w.n < 0 {
		panic("sync: negative WaitGroup counter")
	}
	if w.n == 0 {
		wakeAll(&w.waiters)
	}
}

func (w *WaitGroup) Done() { w.Add(-1) }

func (w *WaitGroup) Wait() {
	t := simrt.Self()
	if t == nil {
		w.real.Wait()
		return
	}
	simrt.Yield("WaitGroup.Wait")
	for w.n > 0 {
		w.waiters = append(w.waiters, t)
		simrt.BlockSim(t, "WaitGroup.Wait(blocked)")
	}
}

func (w *WaitGroup) Go(f func()) {
	w.Add(1)
	simrt.Go(func() { defer w.Done(); f() }, "WaitGroup.Go")
}

// Once: a second caller blocks (simulated) until the first finished.
type Once struct {
	real sync.Once
	done bool
	m    Mutex
}

func (o *Once) Do(f func()) {
	t := simrt.Self()
	if t == nil {
		if o.done {
			return
		}
		o.real.Do(func() { f(); o.done = true })
		return
	}
	simrt.Yield("Once.Do")
	if o.done {
		return
	}
	o.m.Lock()
	defer o.m.Unlock()
	if !o.done {
		defer func() { o.done = true }()
		f()
	}
}

// Cond with simulated waiters.
type Cond struct {
	L       sync.Locker
	real    *sync.Cond
	waiters []*simrt.Task
}

func NewCond(l sync.Locker) *Cond { return &Cond{L: l, real: sync.NewCond(l)} }

func (c *Cond) Wait() {
	t := simrt.Self()
	if t == nil {
		c.real.Wait()
		return
	}
	c.waiters = append(c.waiters, t)
	c.L.Unlock()
	// Unlock yields; a Signal may already have removed us from waiters.
	still := false
	for _, w := range c.waiters {
		if w == t {
			still = true
		}
	}
	if still {
		simrt.BlockSim(t, "Cond.Wait(blocked)")
	}
	c.L.Lock()
}

func (c *Cond) Signal() {
	if simrt.Self() == nil {
		c.real.Signal()
		return
	}
	simrt.Yield("Cond.Signal")
	if len(c.waiters) > 0 {
		i := simrt.ChooseMap(len(c.waiters))
		w := c.waiters[i]
		c.waiters = append(c.waiters[:i:i], c.waiters[i+1:]...)
		simrt.Wake(w)
	}
}

func (c *Cond) Broadcast() {
	if simrt.Self() == nil {
		c.real.Broadcast()
		return
	}
	simrt.Yield("Cond.Broadcast")
	wakeAll(&c.waiters)
}

// Pool: Get is a simulator choice among pooled objects or a miss.
type Pool struct {
	New   func() any
	real  sync.Pool
	items []any
	known bool
}

// Simulated pools are emptied at the start of every simulation: a real
// sync.Pool may be emptied by the collector at any time, and pooled objects
// that survive from an earlier run would make this run depend on the worker
// process's history.
var (
	poolsMu  sync.Mutex
	allPools []*Pool
)

func init() {
	simrt.OnRunStart(func() {
		poolsMu.Lock()
		for _, p := range allPools {
			p.items = nil
		}
		poolsMu.Unlock()
	})
}

func (p *Pool) register() {
	if p.known {
		return
	}
	poolsMu.Lock()
	if !p.known {
		p.known = true
		allPools = append(allPools, p)
	}
	poolsMu.Unlock()
}

func (p *Pool) Get() any {
	if simrt.Self() == nil && !simrt.MapTapeSet() {
		p.real.New = p.New
		return p.real.Get()
	}
	simrt.Yield("Pool.Get")
	n := len(p.items)
	c := simrt.ChoosePool(n + 1)
	if c < n {
		// c==0 prefers the most recently put object (like a per-P cache).
		i := n - 1 - c
		x := p.items[i]
		p.items = append(p.items[:i:i], p.items[i+1:]...)
		simrt.Probe("pool-hit")
		return x
	}
	simrt.Probe("pool-miss")
	if p.New != nil {
		return p.New()
	}
	return nil
}

func (p *Pool) Put(x any) {
	if simrt.Self() == nil && !simrt.MapTapeSet() {
		p.real.Put(x)
		return
	}
	simrt.Yield("Pool.Put")
	if x == nil {
		return
	}
	p.register()
	p.items = append(p.items, x)
}
