// Package simfsn replaces fsnotify inside simulations: real inotify blocks in
// netpoll (not durable for synctest), and the simulated one can drop, delay,
// duplicate and overflow notifications under control of the fault stream.
package simfsn

import (
	"errors"
	"path/filepath"
	"sync"
	"time"

	"github.com/sourcegraph/zoekt/internal/verifsim/simos"
	"github.com/sourcegraph/zoekt/internal/verifsim/simrt"
	"github.com/sourcegraph/zoekt/internal/verifsim/ssync"
)

type Op uint32

const (
	Create Op = 1 << iota
	Write
	Remove
	Rename
	Chmod
)

type Event struct {
	Name string
	Op   Op
}

func (e Event) Has(op Op) bool { return e.Op&op != 0 }
func (e Event) String() string { return e.Name }

var ErrEventOverflow = errors.New("fsnotify: queue or buffer overflow")

// FaultCfg: percentages applied per notification (drawn from the fault stream).
type FaultCfg struct {
	DropPct, DelayPct, DupPct, OverflowPct int
	Enabled                                 bool
}

var (
	mu       sync.Mutex
	watchers []*Watcher
	Faults   FaultCfg
	// Counters of what actually happened (reset by the harness per run).
	Stats = map[string]int{}
)

func Reset(f FaultCfg) {
	mu.Lock()
	watchers = nil
	Faults = f
	Stats = map[string]int{}
	mu.Unlock()
	simos.Watch = dispatch
}

// StopFaults disables fault injection from now on (liveness phase).
func StopFaults() { mu.Lock(); Faults.Enabled = false; mu.Unlock() }

type item struct {
	ev    Event
	err   error
	delay time.Duration
}

type Watcher struct {
	Events chan Event
	Errors chan error

	dirs   map[string]bool
	qmu    ssync.Mutex
	cond   *ssync.Cond
	queue  []item
	closed bool
}

func NewWatcher() (*Watcher, error) {
	w := &Watcher{Events: make(chan Event), Errors: make(chan error), dirs: map[string]bool{}}
	w.cond = ssync.NewCond(&w.qmu)
	mu.Lock()
	watchers = append(watchers, w)
	mu.Unlock()
	if simrt.Self() != nil {
		simrt.GoNamed("fsn-deliver", w.deliver)
	}
	return w, nil
}

func (w *Watcher) Add(dir string) error {
	w.qmu.Lock()
	w.dirs[filepath.Clean(dir)] = true
	w.qmu.Unlock()
	return nil
}

func (w *Watcher) Close() error {
	w.qmu.Lock()
	w.closed = true
	w.cond.Broadcast()
	w.qmu.Unlock()
	return nil
}

func (w *Watcher) deliver() {
	for {
		w.qmu.Lock()
		for len(w.queue) == 0 && !w.closed {
			w.cond.Wait()
		}
		if w.closed {
			w.qmu.Unlock()
			return
		}
		it := w.queue[0]
		w.queue = w.queue[1:]
		w.qmu.Unlock()
		if it.delay > 0 {
			simrt.Sleep(it.delay)
		}
		// A closed watcher never delivers; poll closed while blocked is not
		// possible, so give up when the reader is gone: use a timeout.
		done := false
		for !done {
			w.qmu.Lock()
			c := w.closed
			w.qmu.Unlock()
			if c {
				return
			}
			tm := time.NewTimer(10 * time.Second)
			if it.err != nil {
				switch simrt.SelectStart(1, "fsn-deliver") {
				default:
					select {
					case w.Errors <- it.err:
						done = true
					default:
						t := simrt.BeforeBlock("fsn-deliver")
						select {
						case w.Errors <- it.err:
							done = true
						case <-tm.C:
						}
						simrt.AfterBlock(t)
					}
				}
			} else {
				switch simrt.SelectStart(1, "fsn-deliver") {
				default:
					select {
					case w.Events <- it.ev:
						done = true
					default:
						t := simrt.BeforeBlock("fsn-deliver")
						select {
						case w.Events <- it.ev:
							done = true
						case <-tm.C:
						}
						simrt.AfterBlock(t)
					}
				}
			}
			tm.Stop()
		}
	}
}

var delays = []time.Duration{time.Millisecond, 50 * time.Millisecond, time.Second, 20 * time.Second, 90 * time.Second}

// dispatch is called by simos after a successful mutation (baton holder).
func dispatch(op simos.Op) {
	if simrt.Self() == nil {
		return
	}
	dir := filepath.Dir(op.Path)
	mu.Lock()
	ws := append([]*Watcher(nil), watchers...)
	f := Faults
	mu.Unlock()
	for _, w := range ws {
		w.qmu.Lock()
		if !w.dirs[dir] || w.closed {
			w.qmu.Unlock()
			continue
		}
		var o Op
		switch op.Name {
		case "create", "openfile":
			o = Create
		case "write":
			o = Write
		case "remove":
			o = Remove
		case "rename":
			o = Create
		default:
			o = Chmod
		}
		it := item{ev: Event{Name: op.Path, Op: o}}
		n := 1
		if f.Enabled {
			r := simrt.ChooseFault(100)
			// value 0 = no fault, so an all-zero fault tape is fault free.
			r = 99 - r
			switch {
			case r < f.DropPct:
				n = 0
				bump("dropped")
			case r < f.DropPct+f.DelayPct:
				it.delay = delays[simrt.ChooseFault(len(delays))]
				bump("delayed")
			case r < f.DropPct+f.DelayPct+f.DupPct:
				n = 2
				bump("duplicated")
			case r < f.DropPct+f.DelayPct+f.DupPct+f.OverflowPct:
				it = item{err: ErrEventOverflow}
				bump("overflow")
			}
		}
		for i := 0; i < n; i++ {
			w.queue = append(w.queue, it)
			bump("queued")
		}
		w.cond.Broadcast()
		w.qmu.Unlock()
	}
}

func bump(k string) { mu.Lock(); Stats[k]++; mu.Unlock() }
