// Package suatomic mirrors the go.uber.org/atomic types zoekt uses; every
// operation is a scheduling point. Peek* accessors do not yield (harness use).
package suatomic

import (
	"time"

	"go.uber.org/atomic"

	"github.com/sourcegraph/zoekt/internal/verifsim/simrt"
)

type Bool struct{ v atomic.Bool }

func NewBool(x bool) *Bool { b := &Bool{}; b.v.Store(x); return b }
func (b *Bool) Load() bool  { simrt.Yield("atomic.Bool.Load"); return b.v.Load() }
func (b *Bool) Store(x bool) { simrt.Yield("atomic.Bool.Store"); b.v.Store(x) }
func (b *Bool) Swap(x bool) bool { simrt.Yield("atomic.Bool.Swap"); return b.v.Swap(x) }
func (b *Bool) Toggle() bool { simrt.Yield("atomic.Bool.Toggle"); return b.v.Toggle() }
func (b *Bool) CAS(o, n bool) bool { simrt.Yield("atomic.Bool.CAS"); return b.v.CompareAndSwap(o, n) }
func (b *Bool) CompareAndSwap(o, n bool) bool {
	simrt.Yield("atomic.Bool.CAS")
	return b.v.CompareAndSwap(o, n)
}
func (b *Bool) Peek() bool { return b.v.Load() }

type Value struct{ v atomic.Value }

func (b *Value) Load() any   { simrt.Yield("atomic.Value.Load"); return b.v.Load() }
func (b *Value) Store(x any) { simrt.Yield("atomic.Value.Store"); b.v.Store(x) }
func (b *Value) Swap(x any) any { simrt.Yield("atomic.Value.Swap"); return b.v.Swap(x) }
func (b *Value) CompareAndSwap(o, n any) bool {
	simrt.Yield("atomic.Value.CAS")
	return b.v.CompareAndSwap(o, n)
}
func (b *Value) Peek() any { return b.v.Load() }

type Int64 struct{ v atomic.Int64 }

func NewInt64(x int64) *Int64 { b := &Int64{}; b.v.Store(x); return b }
func (b *Int64) Load() int64 { simrt.Yield("atomic.Int64.Load"); return b.v.Load() }
func (b *Int64) Store(x int64) { simrt.Yield("atomic.Int64.Store"); b.v.Store(x) }
func (b *Int64) Add(x int64) int64 { simrt.Yield("atomic.Int64.Add"); return b.v.Add(x) }
func (b *Int64) Sub(x int64) int64 { simrt.Yield("atomic.Int64.Sub"); return b.v.Sub(x) }
func (b *Int64) Inc() int64 { simrt.Yield("atomic.Int64.Inc"); return b.v.Inc() }
func (b *Int64) Dec() int64 { simrt.Yield("atomic.Int64.Dec"); return b.v.Dec() }
func (b *Int64) Swap(x int64) int64 { simrt.Yield("atomic.Int64.Swap"); return b.v.Swap(x) }
func (b *Int64) CAS(o, n int64) bool { simrt.Yield("atomic.Int64.CAS"); return b.v.CompareAndSwap(o, n) }
func (b *Int64) CompareAndSwap(o, n int64) bool {
	simrt.Yield("atomic.Int64.CAS")
	return b.v.CompareAndSwap(o, n)
}

type Int32 struct{ v atomic.Int32 }

func NewInt32(x int32) *Int32 { b := &Int32{}; b.v.Store(x); return b }
func (b *Int32) Load() int32 { simrt.Yield("atomic.Int32.Load"); return b.v.Load() }
func (b *Int32) Store(x int32) { simrt.Yield("atomic.Int32.Store"); b.v.Store(x) }
func (b *Int32) Add(x int32) int32 { simrt.Yield("atomic.Int32.Add"); return b.v.Add(x) }
func (b *Int32) Sub(x int32) int32 { simrt.Yield("atomic.Int32.Sub"); return b.v.Sub(x) }
func (b *Int32) Inc() int32 { simrt.Yield("atomic.Int32.Inc"); return b.v.Inc() }
func (b *Int32) Dec() int32 { simrt.Yield("atomic.Int32.Dec"); return b.v.Dec() }
func (b *Int32) Swap(x int32) int32 { simrt.Yield("atomic.Int32.Swap"); return b.v.Swap(x) }
func (b *Int32) CAS(o, n int32) bool { simrt.Yield("atomic.Int32.CAS"); return b.v.CompareAndSwap(o, n) }
func (b *Int32) CompareAndSwap(o, n int32) bool {
	simrt.Yield("atomic.Int32.CAS")
	return b.v.CompareAndSwap(o, n)
}

type Uint64 struct{ v atomic.Uint64 }

func NewUint64(x uint64) *Uint64 { b := &Uint64{}; b.v.Store(x); return b }
func (b *Uint64) Load() uint64 { simrt.Yield("atomic.Uint64.Load"); return b.v.Load() }
func (b *Uint64) Store(x uint64) { simrt.Yield("atomic.Uint64.Store"); b.v.Store(x) }
func (b *Uint64) Add(x uint64) uint64 { simrt.Yield("atomic.Uint64.Add"); return b.v.Add(x) }
func (b *Uint64) Inc() uint64 { simrt.Yield("atomic.Uint64.Inc"); return b.v.Inc() }
func (b *Uint64) Swap(x uint64) uint64 { simrt.Yield("atomic.Uint64.Swap"); return b.v.Swap(x) }
func (b *Uint64) CompareAndSwap(o, n uint64) bool {
	simrt.Yield("atomic.Uint64.CAS")
	return b.v.CompareAndSwap(o, n)
}

type Uint32 struct{ v atomic.Uint32 }

func NewUint32(x uint32) *Uint32 { b := &Uint32{}; b.v.Store(x); return b }
func (b *Uint32) Load() uint32 { simrt.Yield("atomic.Uint32.Load"); return b.v.Load() }
func (b *Uint32) Store(x uint32) { simrt.Yield("atomic.Uint32.Store"); b.v.Store(x) }
func (b *Uint32) Add(x uint32) uint32 { simrt.Yield("atomic.Uint32.Add"); return b.v.Add(x) }
func (b *Uint32) Inc() uint32 { simrt.Yield("atomic.Uint32.Inc"); return b.v.Inc() }
func (b *Uint32) Swap(x uint32) uint32 { simrt.Yield("atomic.Uint32.Swap"); return b.v.Swap(x) }
func (b *Uint32) CompareAndSwap(o, n uint32) bool {
	simrt.Yield("atomic.Uint32.CAS")
	return b.v.CompareAndSwap(o, n)
}

type String struct{ v atomic.String }

func NewString(x string) *String { b := &String{}; b.v.Store(x); return b }
func (b *String) Load() string { simrt.Yield("atomic.String.Load"); return b.v.Load() }
func (b *String) Store(x string) { simrt.Yield("atomic.String.Store"); b.v.Store(x) }

type Duration struct{ v atomic.Duration }

func NewDuration(x time.Duration) *Duration { b := &Duration{}; b.v.Store(x); return b }
func (b *Duration) Load() time.Duration { simrt.Yield("atomic.Duration.Load"); return b.v.Load() }
func (b *Duration) Store(x time.Duration) { simrt.Yield("atomic.Duration.Store"); b.v.Store(x) }
func (b *Duration) Add(x time.Duration) time.Duration {
	simrt.Yield("atomic.Duration.Add")
	return b.v.Add(x)
}
