// Prototype source instrumenter: rewrites packages of a scratch copy so that
// every synchronisation point goes through simrt.
package main

import (
	"bytes"
	"encoding/json"
	"fmt"
	"go/ast"
	"go/format"
	"go/importer"
	"go/parser"
	"go/token"
	"go/types"
	"io"
	"os"
	"os/exec"
	"path/filepath"
	"reflect"
	"sort"
	"strconv"
	"strings"
)

const simrtPath = "github.com/sourcegraph/zoekt/internal/verifsim/simrt"
const simrtName = "simrt"

// (pkgpath, name) -> replacement package path, package local name
type repl struct{ path, local string }

var selectorTable = map[string]map[string]repl{}

func addRepl(from string, to repl, names ...string) {
	m := selectorTable[from]
	if m == nil {
		m = map[string]repl{}
		selectorTable[from] = m
	}
	for _, n := range names {
		m[n] = to
	}
}

func init() {
	base := "github.com/sourcegraph/zoekt/internal/verifsim/"
	addRepl("sync", repl{base + "ssync", "ssync"}, "Mutex", "RWMutex", "WaitGroup", "Once", "Pool", "Cond", "NewCond", "OnceValue", "OnceValues", "OnceFunc", "Locker", "Map")
	addRepl("go.uber.org/atomic", repl{base + "suatomic", "suatomic"}, "Bool", "Value", "Int64", "Int32", "Uint32", "Uint64", "String", "Duration", "NewBool", "NewInt64", "NewInt32", "NewUint32", "NewUint64", "NewString", "NewDuration")
	addRepl("sync/atomic", repl{base + "satomic", "satomic"}, "Bool", "Value", "Int64", "Int32", "Uint32", "Uint64", "Pointer",
		"AddInt32", "AddInt64", "AddUint32", "AddUint64", "LoadInt32", "LoadInt64", "LoadUint32", "LoadUint64",
		"StoreInt32", "StoreInt64", "StoreUint32", "StoreUint64", "SwapInt32", "SwapInt64",
		"CompareAndSwapInt32", "CompareAndSwapInt64", "CompareAndSwapUint32", "CompareAndSwapUint64", "LoadPointer", "StorePointer")
	addRepl("golang.org/x/sync/semaphore", repl{base + "ssema", "ssema"}, "Weighted", "NewWeighted")
	addRepl("time", repl{simrtPath, simrtName}, "Sleep")
	addRepl("os", repl{base + "simos", "simos"}, "File", "Open", "OpenFile", "Create", "CreateTemp", "ReadFile", "Rename", "Remove", "RemoveAll", "Mkdir", "MkdirAll", "WriteFile", "Chtimes", "Chmod", "Symlink", "Link", "Truncate")
	addRepl("runtime", repl{simrtPath, simrtName}, "GOMAXPROCS")
	addRepl("os/exec", repl{base + "simexec", "simexec"}, "Command", "CommandContext", "Cmd")
	addRepl("github.com/fsnotify/fsnotify", repl{base + "simfsn", "simfsn"}, "NewWatcher", "ErrEventOverflow", "Watcher", "Event", "Op", "Create", "Write", "Remove", "Rename", "Chmod")
}

type listPkg struct {
	ImportPath string
	Dir        string
	Export     string
	GoFiles    []string
	Standard   bool
}

func goList(dir string, pkgs []string) (map[string]*listPkg, error) {
	args := append([]string{"list", "-deps", "-export", "-json=ImportPath,Dir,Export,GoFiles,Standard"}, pkgs...)
	cmd := exec.Command(goBin, args...)
	cmd.Dir = dir
	cmd.Stderr = os.Stderr
	out, err := cmd.Output()
	if err != nil {
		return nil, err
	}
	dec := json.NewDecoder(bytes.NewReader(out))
	res := map[string]*listPkg{}
	for {
		var p listPkg
		if err := dec.Decode(&p); err == io.EOF {
			break
		} else if err != nil {
			return nil, err
		}
		res[p.ImportPath] = &p
	}
	return res, nil
}

var entryPkgs = map[string]bool{}
var goBin = "go"

type pkgStats struct {
	Sites         int      `json:"sites"`
	EntryYields   int      `json:"entry_yields"`
	Uninstrumented []string `json:"uninstrumented_sites"`
}

var stats = map[string]*pkgStats{}

func main() {
	args := os.Args[1:]
	statsOut := ""
	for len(args) > 0 && strings.HasPrefix(args[0], "-") {
		switch args[0] {
		case "-entry":
			for _, p := range strings.Split(args[1], ",") {
				if p != "" {
					entryPkgs[p] = true
				}
			}
		case "-go":
			goBin = args[1]
		case "-stats":
			statsOut = args[1]
		default:
			fmt.Fprintln(os.Stderr, "unknown flag", args[0])
			os.Exit(2)
		}
		args = args[2:]
	}
	root := args[0]
	pkgs := args[1:]
	defer func() {
		if statsOut != "" {
			b, _ := json.MarshalIndent(stats, "", " ")
			os.WriteFile(statsOut, b, 0o644)
		}
	}()
	all, err := goList(root, pkgs)
	if err != nil {
		fmt.Fprintln(os.Stderr, "go list:", err)
		os.Exit(2)
	}
	fset := token.NewFileSet()
	imp := importer.ForCompiler(fset, "gc", func(path string) (io.ReadCloser, error) {
		p := all[path]
		if p == nil || p.Export == "" {
			return nil, fmt.Errorf("no export data for %s", path)
		}
		return os.Open(p.Export)
	})
	for _, pp := range pkgs {
		var lp *listPkg
		for _, p := range all {
			if p.ImportPath == pp || strings.HasSuffix(p.ImportPath, strings.TrimPrefix(pp, ".")) && !p.Standard && strings.HasPrefix(pp, "./") {
				lp = p
			}
		}
		if lp == nil {
			fmt.Fprintln(os.Stderr, "package not found", pp)
			os.Exit(2)
		}
		if err := instrument(fset, imp, lp); err != nil {
			fmt.Fprintln(os.Stderr, "instrument", pp, err)
			os.Exit(2)
		}
	}
}

type rewriter struct {
	fset    *token.FileSet
	info    *types.Info
	file    *ast.File
	need    map[string]string // import path -> local name to add
	counter int
	sites   int
	warn    []string
	entry   bool
	entries int
}

func instrument(fset *token.FileSet, imp types.Importer, lp *listPkg) error {
	var files []*ast.File
	var names []string
	for _, f := range lp.GoFiles {
		fn := filepath.Join(lp.Dir, f)
		af, err := parser.ParseFile(fset, fn, nil, parser.ParseComments|parser.SkipObjectResolution)
		if err != nil {
			return err
		}
		files = append(files, af)
		names = append(names, fn)
	}
	info := &types.Info{
		Types: map[ast.Expr]types.TypeAndValue{},
		Uses:  map[*ast.Ident]types.Object{},
		Defs:  map[*ast.Ident]types.Object{},
	}
	conf := types.Config{Importer: imp, Error: func(err error) { fmt.Fprintln(os.Stderr, "typecheck:", err) }}
	if _, err := conf.Check(lp.ImportPath, fset, files, info); err != nil {
		return fmt.Errorf("typecheck %s: %w", lp.ImportPath, err)
	}
	total := 0
	ps := &pkgStats{}
	stats[lp.ImportPath] = ps
	entry := false
	for suf := range entryPkgs {
		if strings.HasSuffix(lp.ImportPath, suf) {
			entry = true
		}
	}
	for i, af := range files {
		rw := &rewriter{fset: fset, info: info, file: af, need: map[string]string{}, entry: entry}
		rw.rewriteFile()
		total += rw.sites
		ps.Sites += rw.sites
		ps.EntryYields += rw.entries
		ps.Uninstrumented = append(ps.Uninstrumented, rw.warn...)
		var keep []*ast.CommentGroup
		for _, cg := range af.Comments {
			if cg.Pos() < af.Package {
				keep = append(keep, cg)
				continue
			}
			for _, c := range cg.List {
				if strings.HasPrefix(c.Text, "//go:") {
					keep = append(keep, &ast.CommentGroup{List: []*ast.Comment{c}})
				}
			}
		}
		af.Comments = keep
		var buf bytes.Buffer
		if err := format.Node(&buf, fset, af); err != nil {
			return fmt.Errorf("print %s: %w", names[i], err)
		}
		if err := os.WriteFile(names[i], buf.Bytes(), 0o644); err != nil {
			return err
		}
		for _, w := range rw.warn {
			fmt.Fprintln(os.Stderr, "warn:", w)
		}
	}
	fmt.Fprintf(os.Stderr, "instrumented %s: %d sites\n", lp.ImportPath, total)
	return nil
}

func (rw *rewriter) pos(n ast.Node) string {
	p := rw.fset.Position(n.Pos())
	return fmt.Sprintf("%s:%d", filepath.Base(p.Filename), p.Line)
}

func (rw *rewriter) use(path, local string) *ast.Ident {
	rw.need[path] = local
	return ast.NewIdent(local)
}

func (rw *rewriter) simrt(fn string) ast.Expr {
	return &ast.SelectorExpr{X: rw.use(simrtPath, simrtName), Sel: ast.NewIdent(fn)}
}

func (rw *rewriter) site(n ast.Node) ast.Expr {
	rw.sites++
	return &ast.BasicLit{Kind: token.STRING, Value: strconv.Quote(rw.pos(n))}
}

func (rw *rewriter) rewriteFile() {
	for _, d := range rw.file.Decls {
		rw.node(reflect.ValueOf(&d).Elem())
	}
	if rw.entry {
		for _, d := range rw.file.Decls {
			fd, ok := d.(*ast.FuncDecl)
			if !ok || fd.Body == nil || fd.Name.Name == "init" {
				continue
			}
			y := &ast.ExprStmt{X: &ast.CallExpr{Fun: rw.simrt("Yield"), Args: []ast.Expr{&ast.BasicLit{Kind: token.STRING, Value: strconv.Quote("entry:" + fd.Name.Name)}}}}
			fd.Body.List = append([]ast.Stmt{y}, fd.Body.List...)
			rw.entries++
		}
	}
	rw.fixImports()
}

// node walks v (an addressable reflect.Value holding an AST node or slice) in
// post-order and replaces nodes in place.
func (rw *rewriter) node(v reflect.Value) {
	switch v.Kind() {
	case reflect.Interface:
		if v.IsNil() {
			return
		}
		// Visit the dynamic value, then maybe replace the interface.
		elem := v.Elem()
		if elem.Kind() == reflect.Ptr && !elem.IsNil() {
			if cc, ok := elem.Interface().(*ast.CommClause); ok {
				// do not rewrite the comm statement itself, only the body
				for i := range cc.Body {
					rw.node(reflect.ValueOf(&cc.Body[i]).Elem())
				}
				cc.Body = rw.flatten(cc.Body)
				return
			}
			rw.node(elem)
		}
		if n, ok := v.Interface().(ast.Node); ok {
			if r := rw.replace(n); r != nil {
				v.Set(reflect.ValueOf(r))
			}
		}
	case reflect.Ptr:
		if v.IsNil() {
			return
		}
		if _, ok := v.Interface().(*ast.Object); ok {
			return
		}
		if _, ok := v.Interface().(*ast.Scope); ok {
			return
		}
		s := v.Elem()
		if s.Kind() != reflect.Struct {
			return
		}
		for i := 0; i < s.NumField(); i++ {
			f := s.Field(i)
			if !f.CanSet() {
				continue
			}
			switch f.Kind() {
			case reflect.Interface, reflect.Ptr, reflect.Slice:
				rw.node(f)
			}
		}
		// typed pointer fields (e.g. *ast.BlockStmt, *ast.CallExpr) cannot be replaced by another type; fine.
	case reflect.Slice:
		for i := 0; i < v.Len(); i++ {
			e := v.Index(i)
			switch e.Kind() {
			case reflect.Interface, reflect.Ptr:
				rw.node(e)
			}
		}
	}
}

func (rw *rewriter) flatten(list []ast.Stmt) []ast.Stmt { return list }

func (rw *rewriter) pkgOf(id *ast.Ident) string {
	if obj, ok := rw.info.Uses[id].(*types.PkgName); ok {
		return obj.Imported().Path()
	}
	return ""
}

func (rw *rewriter) isChan(e ast.Expr) bool {
	tv, ok := rw.info.Types[e]
	if !ok || tv.Type == nil {
		return false
	}
	_, isc := tv.Type.Underlying().(*types.Chan)
	return isc
}

func (rw *rewriter) isMap(e ast.Expr) (bool, bool) {
	tv, ok := rw.info.Types[e]
	if !ok || tv.Type == nil {
		return false, false
	}
	m, ism := tv.Type.Underlying().(*types.Map)
	if !ism {
		return false, false
	}
	return true, sortableKey(m.Key(), 0)
}

func sortableKey(t types.Type, depth int) bool {
	if depth > 4 {
		return false
	}
	switch k := t.Underlying().(type) {
	case *types.Basic:
		return k.Info()&(types.IsString|types.IsInteger|types.IsFloat|types.IsBoolean) != 0
	case *types.Array:
		return sortableKey(k.Elem(), depth+1)
	case *types.Struct:
		for i := 0; i < k.NumFields(); i++ {
			if !sortableKey(k.Field(i).Type(), depth+1) {
				return false
			}
		}
		return true
	}
	return false
}

// replace returns a replacement for n or nil.
func (rw *rewriter) replace(n ast.Node) ast.Node {
	switch x := n.(type) {
	case *ast.SelectorExpr:
		if id, ok := x.X.(*ast.Ident); ok {
			if p := rw.pkgOf(id); p != "" {
				if r, ok := selectorTable[p][x.Sel.Name]; ok {
					rw.sites++
					return &ast.SelectorExpr{X: rw.use(r.path, r.local), Sel: x.Sel}
				}
			}
		}
	case *ast.UnaryExpr:
		if x.Op == token.ARROW {
			return &ast.CallExpr{Fun: rw.simrt("Recv"), Args: []ast.Expr{x.X, rw.site(x)}}
		}
	case *ast.SendStmt:
		return &ast.ExprStmt{X: &ast.CallExpr{Fun: &ast.CallExpr{Fun: rw.simrt("Send"), Args: []ast.Expr{x.Chan, rw.site(x)}}, Args: []ast.Expr{x.Value}}}
	case *ast.AssignStmt:
		// v, ok := <-ch  (already rewritten to simrt.Recv(ch) by post-order) -> Recv2
		if len(x.Lhs) == 2 && len(x.Rhs) == 1 {
			if c, ok := x.Rhs[0].(*ast.CallExpr); ok {
				if s, ok := c.Fun.(*ast.SelectorExpr); ok && s.Sel.Name == "Recv" {
					if id, ok := s.X.(*ast.Ident); ok && id.Name == simrtName {
						s.Sel = ast.NewIdent("Recv2")
					}
				}
			}
		}
	case *ast.ValueSpec:
		if len(x.Names) == 2 && len(x.Values) == 1 {
			if c, ok := x.Values[0].(*ast.CallExpr); ok {
				if s, ok := c.Fun.(*ast.SelectorExpr); ok && s.Sel.Name == "Recv" {
					if id, ok := s.X.(*ast.Ident); ok && id.Name == simrtName {
						s.Sel = ast.NewIdent("Recv2")
					}
				}
			}
		}
	case *ast.CallExpr:
		if id, ok := x.Fun.(*ast.Ident); ok && id.Name == "close" && len(x.Args) == 1 {
			if _, isBuiltin := rw.info.Uses[id].(*types.Builtin); isBuiltin {
				return &ast.CallExpr{Fun: rw.simrt("Close"), Args: []ast.Expr{x.Args[0], rw.site(x)}}
			}
		}
	case *ast.RangeStmt:
		if rw.isChan(x.X) {
			x.X = &ast.CallExpr{Fun: rw.simrt("RangeChan"), Args: []ast.Expr{x.X, rw.site(x)}}
		} else if ism, sortable := rw.isMap(x.X); ism {
			if sortable {
				x.X = &ast.CallExpr{Fun: rw.simrt("MapRange"), Args: []ast.Expr{x.X}}
				rw.sites++
			} else {
				rw.warn = append(rw.warn, "map range with unsortable key left as is at "+rw.pos(x))
			}
		}
	case *ast.GoStmt:
		return rw.goStmt(x)
	case *ast.SelectStmt:
		return rw.selectStmt(x, nil)
	case *ast.LabeledStmt:
		if s, ok := x.Stmt.(*ast.SwitchStmt); ok && s.Tag == nil && s.Init == nil {
			_ = s
		}
	}
	return nil
}

func (rw *rewriter) tmp(prefix string) *ast.Ident {
	rw.counter++
	return ast.NewIdent(fmt.Sprintf("__sim%s%d", prefix, rw.counter))
}

func (rw *rewriter) goStmt(g *ast.GoStmt) ast.Node {
	call := g.Call
	site := rw.site(g)
	if fl, ok := call.Fun.(*ast.FuncLit); ok && len(call.Args) == 0 && fl.Type.Params.NumFields() == 0 {
		return &ast.ExprStmt{X: &ast.CallExpr{Fun: rw.simrt("Go"), Args: []ast.Expr{fl, site}}}
	}
	if id, ok := call.Fun.(*ast.Ident); ok {
		if _, isb := rw.info.Uses[id].(*types.Builtin); isb {
			rw.warn = append(rw.warn, "go <builtin> left as is at "+rw.pos(g))
			return nil
		}
	}
	var stmts []ast.Stmt
	fn := rw.tmp("fn")
	stmts = append(stmts, &ast.AssignStmt{Lhs: []ast.Expr{fn}, Tok: token.DEFINE, Rhs: []ast.Expr{call.Fun}})
	inner := &ast.CallExpr{Fun: fn, Ellipsis: call.Ellipsis}
	for _, a := range call.Args {
		if tv, ok := rw.info.Types[a]; ok && (tv.Value != nil || tv.IsNil()) {
			inner.Args = append(inner.Args, a)
			continue
		}
		t := rw.tmp("a")
		stmts = append(stmts, &ast.AssignStmt{Lhs: []ast.Expr{t}, Tok: token.DEFINE, Rhs: []ast.Expr{a}})
		inner.Args = append(inner.Args, t)
	}
	lit := &ast.FuncLit{Type: &ast.FuncType{Params: &ast.FieldList{}}, Body: &ast.BlockStmt{List: []ast.Stmt{&ast.ExprStmt{X: inner}}}}
	stmts = append(stmts, &ast.ExprStmt{X: &ast.CallExpr{Fun: rw.simrt("Go"), Args: []ast.Expr{lit, site}}})
	return &ast.BlockStmt{List: stmts}
}

// deepCopy copies an AST subtree.
func deepCopy(v reflect.Value) reflect.Value {
	switch v.Kind() {
	case reflect.Ptr:
		if v.IsNil() {
			return v
		}
		switch v.Interface().(type) {
		case *ast.Object, *ast.Scope:
			return reflect.Zero(v.Type())
		}
		n := reflect.New(v.Type().Elem())
		n.Elem().Set(deepCopy(v.Elem()))
		return n
	case reflect.Interface:
		if v.IsNil() {
			return v
		}
		n := reflect.New(v.Type()).Elem()
		n.Set(deepCopy(v.Elem()))
		return n
	case reflect.Struct:
		n := reflect.New(v.Type()).Elem()
		for i := 0; i < v.NumField(); i++ {
			if n.Field(i).CanSet() {
				n.Field(i).Set(deepCopy(v.Field(i)))
			}
		}
		return n
	case reflect.Slice:
		if v.IsNil() {
			return v
		}
		n := reflect.MakeSlice(v.Type(), v.Len(), v.Len())
		for i := 0; i < v.Len(); i++ {
			n.Index(i).Set(deepCopy(v.Index(i)))
		}
		return n
	}
	return v
}

func copyStmts(l []ast.Stmt) []ast.Stmt {
	return deepCopy(reflect.ValueOf(l)).Interface().([]ast.Stmt)
}

func copyStmt(s ast.Stmt) ast.Stmt {
	if s == nil {
		return nil
	}
	v := reflect.ValueOf(&s).Elem()
	return deepCopy(v).Interface().(ast.Stmt)
}

func ident(s string) *ast.Ident { return ast.NewIdent(s) }

func (rw *rewriter) selectStmt(s *ast.SelectStmt, label *ast.Ident) ast.Node {
	var comms []*ast.CommClause
	var def *ast.CommClause
	for _, c := range s.Body.List {
		cc := c.(*ast.CommClause)
		if cc.Comm == nil {
			def = cc
		} else {
			comms = append(comms, cc)
		}
	}
	site := rw.site(s)
	if len(comms) == 0 {
		if def == nil {
			return &ast.ExprStmt{X: &ast.CallExpr{Fun: rw.simrt("BlockForever"), Args: []ast.Expr{site}}}
		}
		return nil
	}
	n := len(comms)
	rot := n
	if rot > 4 {
		rot = 4
	}
	// innermost statement list: default body, or announce+blocking select
	innermost := func() []ast.Stmt {
		if def != nil {
			return copyStmts(def.Body)
		}
		blocked := rw.tmp("t")
		var clauses []ast.Stmt
		for _, cc := range comms {
			body := append([]ast.Stmt{&ast.ExprStmt{X: &ast.CallExpr{Fun: rw.simrt("AfterBlock"), Args: []ast.Expr{blocked}}}}, copyStmts(cc.Body)...)
			clauses = append(clauses, &ast.CommClause{Comm: copyStmt(cc.Comm), Body: body})
		}
		return []ast.Stmt{
			&ast.AssignStmt{Lhs: []ast.Expr{blocked}, Tok: token.DEFINE, Rhs: []ast.Expr{&ast.CallExpr{Fun: rw.simrt("BeforeBlock"), Args: []ast.Expr{site}}}},
			&ast.SelectStmt{Body: &ast.BlockStmt{List: clauses}},
		}
	}
	nest := func(start int) []ast.Stmt {
		cur := innermost()
		for k := n - 1; k >= 0; k-- {
			cc := comms[(start+k)%n]
			sel := &ast.SelectStmt{Body: &ast.BlockStmt{List: []ast.Stmt{
				&ast.CommClause{Comm: copyStmt(cc.Comm), Body: copyStmts(cc.Body)},
				&ast.CommClause{Body: cur},
			}}}
			cur = []ast.Stmt{sel}
		}
		return cur
	}
	var clauses []ast.Stmt
	for r := 1; r < rot; r++ {
		clauses = append(clauses, &ast.CaseClause{List: []ast.Expr{&ast.BasicLit{Kind: token.INT, Value: strconv.Itoa(r)}}, Body: nest(r)})
	}
	clauses = append(clauses, &ast.CaseClause{Body: nest(0)})
	return &ast.SwitchStmt{
		Tag:  &ast.CallExpr{Fun: rw.simrt("SelectStart"), Args: []ast.Expr{&ast.BasicLit{Kind: token.INT, Value: strconv.Itoa(rot)}, site}},
		Body: &ast.BlockStmt{List: clauses},
	}
}

func (rw *rewriter) fixImports() {
	// add needed imports
	paths := make([]string, 0, len(rw.need))
	for p := range rw.need {
		paths = append(paths, p)
	}
	sort.Strings(paths)
	for _, p := range paths {
		spec := &ast.ImportSpec{Name: ast.NewIdent(rw.need[p]), Path: &ast.BasicLit{Kind: token.STRING, Value: strconv.Quote(p)}}
		gd := &ast.GenDecl{Tok: token.IMPORT, Specs: []ast.Spec{spec}}
		rw.file.Decls = append([]ast.Decl{gd}, rw.file.Decls...)
		rw.file.Imports = append(rw.file.Imports, spec)
	}
	// drop now-unused imports
	used := map[string]bool{}
	ast.Inspect(rw.file, func(n ast.Node) bool {
		if se, ok := n.(*ast.SelectorExpr); ok {
			if id, ok := se.X.(*ast.Ident); ok {
				used[id.Name] = true
			}
		}
		return true
	})
	for _, d := range rw.file.Decls {
		gd, ok := d.(*ast.GenDecl)
		if !ok || gd.Tok != token.IMPORT {
			continue
		}
		var keep []ast.Spec
		for _, s := range gd.Specs {
			is := s.(*ast.ImportSpec)
			name := ""
			if is.Name != nil {
				name = is.Name.Name
			} else {
				p, _ := strconv.Unquote(is.Path.Value)
				name = defaultName(p)
			}
			if name == "_" || name == "." || used[name] {
				keep = append(keep, s)
			}
		}
		gd.Specs = keep
	}
	// remove empty import decls
	var decls []ast.Decl
	for _, d := range rw.file.Decls {
		if gd, ok := d.(*ast.GenDecl); ok && gd.Tok == token.IMPORT && len(gd.Specs) == 0 {
			continue
		}
		decls = append(decls, d)
	}
	rw.file.Decls = decls
}

func defaultName(p string) string {
	b := filepath.Base(p)
	if strings.HasPrefix(b, "v") {
		if _, err := strconv.Atoi(b[1:]); err == nil {
			b = filepath.Base(filepath.Dir(p))
		}
	}
	b = strings.TrimPrefix(b, "go-")
	return b
}
