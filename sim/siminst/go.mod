module verif/siminst

go 1.25
