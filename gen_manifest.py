#!/usr/bin/env python3
"""Regenerates MANIFEST.json from proptable.py (single source of truth)."""
import json, os, sys
sys.path.insert(0, os.path.dirname(os.path.abspath(__file__)))
from proptable import PROPS, GROUPS
from natable import NOT_APPLICABLE, NOT_BUILT

ids = [json.loads(l)["id"] for l in open("properties.jsonl")]
checks = []
for pid in ids:
    if pid not in PROPS:
        continue
    s = PROPS[pid]
    checks.append({
        "property_id": pid,
        "quick_cmd": "./check %s --tier quick" % pid,
        "thorough_cmd": "./check %s --tier thorough" % pid,
        "evidence_file": "/verif/evidence/%s.json" % pid,
        "replay_cmd_template": "./check %s --replay {path}" % pid,
        "engine": "dst-" + s["group"],
        "level_claimed": {"category": s["level"], "text": s["level_text"], "design_ref": "DESIGN.md §5/" + pid},
        "level_note": s["level_note"],
        "technique": s["technique"],
    })
na = []
for pid in ids:
    if pid in PROPS:
        continue
    if pid in NOT_APPLICABLE:
        na.append({"property_id": pid, "reason": NOT_APPLICABLE[pid]})
    else:
        na.append({"property_id": pid, "reason": NOT_BUILT.get(pid, "designed in DESIGN.md §5 but its harness is not built yet; not claimed")})
m = {
    "version": 1,
    "setup_cmd": "./check setup",
    "hooks": {
        "guard": "verif",
        "enable": "no hooks live in /repo: every check rsyncs the current /repo working tree to a scratch dir under /dev/shm, mechanically instruments that copy with /verif/sim/siminst (sync/atomic/chan/select/go/os/fsnotify/map-range -> simulator seams), adds /verif/harness/* test files and builds it; the build tag 'verif' is reserved but unused",
        "baseline_off_cmd": "cd /repo && GOFLAGS=-mod=mod GOPROXY=off go test -vet=off -count=1 ./...",
        "source_commits": [],
        "add_only": True,
    },
    "engines": [
        {"name": "dst-" + g, "path": "/verif/harness/" + g, "serves_properties": [p for p in ids if p in PROPS and PROPS[p]["group"] == g],
         "kind_free_text": "deterministic simulation with fault injection: seeded baton scheduler over testing/synctest (fake clock), instrumented scratch copy of the repository, simulated sync/os/fsnotify seams, tape-driven replay and minimisation"} for g in GROUPS],
    "checks": checks,
    "not_applicable": na,
    "notes": "All checks: ./check <id> [--tier quick|thorough] [--replay file]; VERIF_SEED selects the batch seed. exit 0 held / 1 VIOLATION / 2 build trouble or nondeterminism tripwire. Known findings are listed in /verif/known-findings.jsonl.",
}
json.dump(m, open("MANIFEST.json", "w"), indent=1)
print("MANIFEST.json: %d checks, %d not claimed" % (len(checks), len(na)))
