NOT_APPLICABLE = {
 "C01": "pure function of (corpus, query): single-threaded evaluation over an immutable shard; no schedule, clock or fault for a simulator to control",
 "C02": "match ranges are a pure function of (content, query); no schedule, clock, fault or history in the statement",
 "C03": "line/column/context arithmetic on an immutable byte slice: pure function of its input",
 "C05": "query -> query rewriting is a pure function; nothing to schedule or fault",
 "C06": "parser semantics vs. documentation: pure function of the query string",
 "C07": "totality of pure parsing/decoding functions over byte strings; input-space only",
 "C08": "Unicode case-folding agreement: pure function of (pattern, content)",
 "C09": "write->read round trip of one shard by one thread with a fault-free writer; the faulty-storage side of the format is decided under C11/C12",
 "C15": "directory/archive -> documents is a function of the immutable input tree; no concurrent modification or fault is part of the statement",
 "C16": "merge/explode content preservation is a function of the input shards; the fault/crash side is C35",
 "C24": "wire round trip and handler totality are pure functions of the message value",
 "C26": "codec round trip / decoder robustness: pure functions of bytes",
 "C27": "regexp printing/optimisation equivalence: pure function",
 "C28": "engine choice by a size threshold: pure function of (regexp, content, threshold)",
 "C36": "HTML escaping of template inputs: pure function of the values rendered",
 "C37": "ctags entry list -> symbol ranges: pure function",
}
NOT_BUILT = {}
