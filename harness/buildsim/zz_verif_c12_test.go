package buildsim

import (
	"fmt"
	"os"
	"syscall"
	"path/filepath"
	"sort"
	"strings"
	"testing"

	"github.com/sourcegraph/zoekt"
	"github.com/sourcegraph/zoekt/index"
	"github.com/sourcegraph/zoekt/internal/verifsim/hx"
	"github.com/sourcegraph/zoekt/internal/verifsim/simos"
	"github.com/sourcegraph/zoekt/internal/verifsim/simrt"
)

// C12: a killed indexer leaves the old or the new index, never a mix.
//
// One run = one scenario (old index, new build). The new build is first run
// fault free while its file-system operations are recorded; then EVERY
// mutating operation is used as a kill point (before it, and for writes also
// in the middle of it) and every operation as a failure point (returns EIO,
// no kill). After each execution a fresh searcher looks at the directory.

func init() { hx.Register("C12", "C12", runC12) }

type c12Doc struct {
	name, content string
}

type c12Scenario struct {
	kind      string // full | delta | merging
	oldDocs   []c12Doc
	newDocs   []c12Doc // full content of the new version
	oldShard  int      // ShardMax for the old build
	newShard  int
	changed   []string // delta: changed or removed names
	deltaAdd  []c12Doc // delta: documents added to the builder
	newMeta   bool
	oldDelta  bool // the old index is itself the result of a full build followed by a delta build (it has sidecars)
}

func c12Opts(dir string, ver int, shardMax int, sc *c12Scenario) index.Options {
	o := index.Options{IndexDir: dir, ShardMax: shardMax, Parallelism: 1, DisableCTags: true, SizeMax: 1 << 20, TrigramMax: 20000,
		RepositoryDescription: zoekt.Repository{ID: 7, Name: "repo", Branches: []zoekt.RepositoryBranch{{Name: "HEAD", Version: fmt.Sprintf("v%d", ver)}}}}
	if sc != nil && sc.newMeta && ver == 2 {
		o.RepositoryDescription.Metadata = map[string]string{"stage": "two"}
	}
	if sc != nil && sc.kind == "merging" {
		o.ShardMerging = true
	}
	return o
}

func c12Build(o index.Options, docs []c12Doc, changed []string) (finishErr error, addErr error) {
	b, err := index.NewBuilder(o)
	if err != nil {
		return err, nil
	}
	for _, c := range changed {
		b.MarkFileAsChangedOrRemoved(c)
	}
	for _, d := range docs {
		if e := b.Add(index.Document{Name: d.name, Content: []byte(d.content), Branches: []string{"HEAD"}}); e != nil && addErr == nil {
			addErr = e
		}
	}
	return b.Finish(), addErr
}

func c12Gen(tp *simrt.Tape) *c12Scenario {
	sc := &c12Scenario{kind: []string{"full", "full", "delta", "merging"}[tp.Gen(4)]}
	nOld := tp.GenRange(1, 5)
	for i := 0; i < nOld; i++ {
		sc.oldDocs = append(sc.oldDocs, c12Doc{fmt.Sprintf("f%d.txt", i), fmt.Sprintf("old version of file %d %s\n", i, strings.Repeat("pad ", tp.Gen(6)))})
	}
	sc.oldShard = []int{40, 90, 200, 100000}[tp.Gen(4)]
	sc.newShard = []int{40, 90, 200, 100000}[tp.Gen(4)]
	sc.newMeta = tp.Gen(3) == 0
	sc.oldDelta = sc.kind != "merging" && tp.Gen(3) == 0
	// new version: keep / change / remove each old doc, add some
	for _, d := range sc.oldDocs {
		switch tp.Gen(3) {
		case 0:
			sc.newDocs = append(sc.newDocs, d)
		case 1:
			nd := c12Doc{d.name, "NEW " + d.content}
			sc.newDocs = append(sc.newDocs, nd)
			sc.changed = append(sc.changed, d.name)
			sc.deltaAdd = append(sc.deltaAdd, nd)
		default:
			sc.changed = append(sc.changed, d.name)
		}
	}
	nAdd := tp.GenRange(0, 3)
	for i := 0; i < nAdd; i++ {
		nd := c12Doc{fmt.Sprintf("added%d.txt", i), fmt.Sprintf("added in new version %d %s\n", i, strings.Repeat("pad ", tp.Gen(6)))}
		sc.newDocs = append(sc.newDocs, nd)
		sc.deltaAdd = append(sc.deltaAdd, nd)
	}
	if len(sc.newDocs) == 0 {
		nd := c12Doc{"only.txt", "only file of the new version\n"}
		sc.newDocs = append(sc.newDocs, nd)
		sc.deltaAdd = append(sc.deltaAdd, nd)
	}
	if sc.kind == "delta" && len(sc.deltaAdd) == 0 && len(sc.changed) == 0 {
		nd := c12Doc{"delta-added.txt", "added by the delta build\n"}
		sc.newDocs = append(sc.newDocs, nd)
		sc.deltaAdd = append(sc.deltaAdd, nd)
	}
	return sc
}

func (sc *c12Scenario) String() string {
	return fmt.Sprintf("kind=%s old=%d docs shardMax=%d oldBuiltByFull+Delta=%t new=%d docs shardMax=%d changedOrRemoved=%v deltaAdds=%d newMeta=%t", sc.kind, len(sc.oldDocs), sc.oldShard, sc.oldDelta, len(sc.newDocs), sc.newShard, sc.changed, len(sc.deltaAdd), sc.newMeta)
}

func modelState(docs []c12Doc, ver int) []string {
	var out []string
	for _, d := range docs {
		out = append(out, fmt.Sprintf("repo/%s=%q@v%d[HEAD]", d.name, d.content, ver))
	}
	sort.Strings(out)
	return out
}

func runC12(t *testing.T, tp *simrt.Tape, keepTrace bool) hx.Result {
	sc := c12Gen(tp)
	base, err := os.MkdirTemp(scratchDir(), "c12-")
	if err != nil {
		return hx.Result{HarnessErr: err.Error()}
	}
	defer os.RemoveAll(base)
	var res hx.Result
	res.Faults = map[string]int{}
	res.Offered = map[string]int{}
	seen := map[string]bool{}
	report := func(sig, detail string) {
		if !seen[sig] {
			seen[sig] = true
			res.Violations = append(res.Violations, hx.Violation{Sig: sig, Detail: detail})
		}
	}
	// --- old index ---
	oldDir := filepath.Join(base, "old")
	os.MkdirAll(oldDir, 0o755)
	if sc.kind == "merging" {
		// the repository lives in a compound shard together with another one
		tmp := filepath.Join(base, "tmp")
		os.MkdirAll(tmp, 0o755)
		if e, _ := c12Build(c12Opts(tmp, 1, 100000, nil), sc.oldDocs, nil); e != nil {
			return hx.Result{HarnessErr: "old build: " + e.Error()}
		}
		oo := c12Opts(tmp, 1, 100000, nil)
		oo.RepositoryDescription = zoekt.Repository{ID: 8, Name: "other", Branches: []zoekt.RepositoryBranch{{Name: "HEAD", Version: "o1"}}}
		if e, _ := c12Build(oo, []c12Doc{{"o.txt", "other repository content\n"}}, nil); e != nil {
			return hx.Result{HarnessErr: "other build: " + e.Error()}
		}
		var files []index.IndexFile
		shards, _ := filepath.Glob(filepath.Join(tmp, "*.zoekt"))
		sort.Strings(shards)
		for _, fn := range shards {
			f, err := os.Open(fn)
			if err != nil {
				return hx.Result{HarnessErr: err.Error()}
			}
			ifile, err := index.NewIndexFile(simos.Wrap(f))
			if err != nil {
				return hx.Result{HarnessErr: err.Error()}
			}
			defer ifile.Close()
			files = append(files, ifile)
		}
		tmpName, dstName, err := index.Merge(oldDir, files...)
		if err != nil {
			return hx.Result{HarnessErr: "merge: " + err.Error()}
		}
		if err := os.Rename(tmpName, dstName); err != nil {
			return hx.Result{HarnessErr: err.Error()}
		}
	} else if sc.oldDelta {
		// full build of an earlier version, then a delta build that rewrites the first
		// document: the old index consists of two shard generations plus sidecars
		// (branch versions, file tombstones)
		pre := append([]c12Doc(nil), sc.oldDocs...)
		pre[0] = c12Doc{pre[0].name, "PRE " + pre[0].content}
		if e, _ := c12Build(c12Opts(oldDir, 0, sc.oldShard, nil), pre, nil); e != nil {
			return hx.Result{HarnessErr: "pre-old build: " + e.Error()}
		}
		do := c12Opts(oldDir, 1, sc.oldShard, nil)
		do.IsDelta = true
		if e, _ := c12Build(do, []c12Doc{sc.oldDocs[0]}, []string{sc.oldDocs[0].name}); e != nil {
			return hx.Result{HarnessErr: "old delta build: " + e.Error()}
		}
	} else {
		if e, _ := c12Build(c12Opts(oldDir, 1, sc.oldShard, nil), sc.oldDocs, nil); e != nil {
			return hx.Result{HarnessErr: "old build: " + e.Error()}
		}
	}
	oldState := observe(oldDir)
	if len(oldState.Unloadable) > 0 || fmt.Sprint(oldState.repoDocs("repo")) != fmt.Sprint(modelState(sc.oldDocs, 1)) {
		return hx.Result{HarnessErr: fmt.Sprintf("old index is not what the model says: %v vs %v (%v)", oldState.repoDocs("repo"), modelState(sc.oldDocs, 1), oldState.Unloadable)}
	}
	newBuild := func(dir string) (error, error) {
		o := c12Opts(dir, 2, sc.newShard, sc)
		if sc.kind == "delta" {
			o.IsDelta = true
			return c12Build(o, sc.deltaAdd, sc.changed)
		}
		return c12Build(o, sc.newDocs, nil)
	}
	// --- pass 0: fault free, recorded ---
	refDir := filepath.Join(base, "ref")
	copyDir(oldDir, refDir)
	p0 := simos.NewProc("indexer", simos.Plan{})
	var finErr, addErr error
	withProc(p0, func() { finErr, addErr = newBuild(refDir) })
	ops := simos.StateOf(p0).Log
	newState := observe(refDir)
	res.Evals = 1
	where := func() string { return sc.String() + " ops=" + strings.Join(relOps(ops, refDir), "; ") }
	if finErr != nil || addErr != nil {
		report("fault-free-build-fails|"+sc.kind, fmt.Sprintf("Finish=%v Add=%v; %s", finErr, addErr, where()))
		return res
	}
	if len(newState.Unloadable) > 0 {
		report("fault-free-build-leaves-unloadable-shard|"+sc.kind, fmt.Sprintf("%v; %s", newState.Unloadable, where()))
		return res
	}
	if got, want := fmt.Sprint(newState.repoDocs("repo")), fmt.Sprint(modelState(sc.newDocs, 2)); got != want {
		report("fault-free-build-differs-from-model|"+sc.kind, fmt.Sprintf("searchable %s, expected %s; %s", got, want, where()))
		return res
	}
	if fmt.Sprint(newState.repoDocs("other")) != fmt.Sprint(oldState.repoDocs("other")) {
		report("other-repository-affected|"+sc.kind, fmt.Sprintf("other repo: %v -> %v; %s", oldState.repoDocs("other"), newState.repoDocs("other"), where()))
		return res
	}
	oldKey, newKey := oldState.key(), newState.key()
	// install renames: renames onto final *.zoekt / *.meta names
	firstInstall, lastMut := 0, 0
	for _, o := range ops {
		// the install phase starts with the first operation that changes what a searcher
		// sees: a rename onto a final name or the removal of an installed file
		final := strings.HasSuffix(o.Path, ".zoekt") || strings.HasSuffix(o.Path, ".meta")
		if (o.Name == "rename" || o.Name == "remove") && final && firstInstall == 0 {
			firstInstall = o.K
		}
		if o.Mut {
			lastMut = o.K
		}
	}
	classify := func(st dirState) string {
		switch {
		case len(st.Unloadable) > 0:
			return "unloadable"
		case st.key() == oldKey:
			return "old"
		case st.key() == newKey:
			return "new"
		case len(st.repoDocs("repo")) == 0:
			return "missing"
		}
		return "mixed"
	}
	n := 0
	exec := func(plan simos.Plan, label string, k int, op simos.Op) {
		n++
		d := filepath.Join(base, fmt.Sprintf("x%d", n))
		copyDir(oldDir, d)
		defer os.RemoveAll(d)
		p := simos.NewProc("indexer", plan)
		var fe, ae error
		completed := withProc(p, func() { fe, ae = newBuild(d) })
		for k, v := range simos.StateOf(p).Fired {
			res.Faults[k] += v
		}
		st := observe(d)
		cls := classify(st)
		res.Evals++
		res.Distinct = append(res.Distinct, hash64(sc.String(), label, fmt.Sprint(k), cls))
		opDesc := fmt.Sprintf("%s op %d (%s %s)", label, k, op.Name, strings.ReplaceAll(op.Path, refDir+"/", ""))
		detail := func() string {
			return fmt.Sprintf("%s: completed=%t Finish=%v Add=%v -> directory is %s: repo docs %v entries %v unloadable %v files %v; old=%v new=%v; %s", opDesc, completed, fe, ae, cls, st.repoDocs("repo"), st.repoEntry("repo"), st.Unloadable, lsDir(d), oldState.repoDocs("repo"), newState.repoDocs("repo"), where())
		}
		if fmt.Sprint(st.repoDocs("other")) != fmt.Sprint(oldState.repoDocs("other")) && cls != "unloadable" {
			report("other-repository-affected|"+label+"|"+sc.kind, detail())
		}
		flabel := label
		if label == "fail" {
			flabel = "fail-" + op.Name
		}
		if completed && fe == nil && ae == nil && cls != "new" {
			report("success-reported-but-new-index-not-installed|"+flabel+"|"+sc.kind, detail())
			return
		}
		switch cls {
		case "old", "new":
			return
		case "mixed", "missing":
			// The narrow, expected class: installing several artifacts (shards,
			// metadata sidecars, tombstones) is a sequence of renames followed by
			// the removal of left-over old files. A kill or a failing operation
			// strictly inside that sequence leaves some-new/some-old; when every
			// old document is tombstoned by an already installed sidecar the
			// repository can even show no documents. Anywhere else it is reported
			// under its own signature.
			if label != "fail" && firstInstall > 0 && k > firstInstall && k <= lastMut {
				report("mixed-install|kill-between-first-install-rename-and-end-of-cleanup|"+sc.kind, detail())
			} else if label == "fail" && firstInstall > 0 && k >= firstInstall && k <= lastMut {
				report("mixed-install|failed-operation-during-install-or-cleanup|"+sc.kind, detail())
			} else {
				report(cls+"|"+flabel+"-outside-install-phase|"+sc.kind, detail())
			}
		default:
			report(cls+"|"+flabel+"|"+sc.kind, detail())
		}
	}
	// a build that fails on its own (a document names a branch the repository does
	// not have), sequential and with parallel shard builds: it must report the
	// error and leave the old index
	if sc.kind == "full" {
		for _, par := range []int{1, 4} {
			n++
			d := filepath.Join(base, fmt.Sprintf("bad%d", n))
			copyDir(oldDir, d)
			o := c12Opts(d, 2, sc.newShard, sc)
			o.Parallelism = par
			var fe error
			func() {
				b, err := index.NewBuilder(o)
				if err != nil {
					fe = err
					return
				}
				for i, dd := range sc.newDocs {
					br := []string{"HEAD"}
					if i == len(sc.newDocs)-1 {
						br = []string{"no-such-branch"}
					}
					b.Add(index.Document{Name: dd.name, Content: []byte(dd.content), Branches: br})
				}
				fe = b.Finish()
			}()
			st := observe(d)
			cls := classify(st)
			res.Evals++
			res.Offered["failing-build"]++
			if fe == nil {
				report("build-with-invalid-document-reports-success|"+sc.kind, fmt.Sprintf("parallelism %d: Finish returned nil although the last document names an unknown branch; %s", par, where()))
			} else if cls != "old" {
				res.Faults["failing-build"]++
				report(fmt.Sprintf("failed-build-changed-the-installed-index|%s|parallelism-%d", cls, min(par, 2)), fmt.Sprintf("Finish=%v but the directory is %s: repo docs %v files %v; old=%v; %s", fe, cls, st.repoDocs("repo"), lsDir(d), oldState.repoDocs("repo"), where()))
			} else {
				res.Faults["failing-build"]++
			}
			os.RemoveAll(d)
		}
	}
	for _, o := range ops {
		if o.Mut {
			res.Offered["kill"]++
			exec(simos.Plan{CrashAt: o.K}, "kill-before", o.K, o)
			if o.Name == "write" && o.Size > 1 {
				res.Offered["kill-in-write"]++
				exec(simos.Plan{CrashAt: o.K, CrashInWrite: true}, "kill-inside", o.K, o)
			}
		}
		res.Offered["fail-"+o.Name]++
		exec(simos.Plan{FailAt: o.K}, "fail", o.K, o)
		if o.Name == "write" || o.Name == "createtemp" {
			// the disk fills up: from this operation on nothing can be created or written (ENOSPC)
			res.Offered["disk-full"]++
			exec(simos.Plan{FailFrom: o.K, FailKinds: simos.DiskFull, FailErr: syscall.ENOSPC}, "fail", o.K, o)
		}
	}
	// kill after everything (= no kill) must give new
	res.Sample = map[string]any{"scenario": sc.String(), "ops": relOps(ops, refDir), "executions": res.Evals}
	res.Nontrivial = len(ops) > 0
	res.Hash = hash64(sc.String())
	return res
}
