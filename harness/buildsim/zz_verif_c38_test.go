package buildsim

import (
	"fmt"
	"os"
	"regexp"
	"path/filepath"
	"strings"
	"testing"

	"github.com/sourcegraph/zoekt"
	"github.com/sourcegraph/zoekt/index"
	"github.com/sourcegraph/zoekt/internal/verifsim/hx"
	"github.com/sourcegraph/zoekt/internal/verifsim/simos"
	"github.com/sourcegraph/zoekt/internal/verifsim/simrt"
)

// C38: incremental indexing skips only up-to-date repositories. Claim: the
// history/crash dimension (index -> change options/branches/metadata and/or a
// killed build -> incremental decision); the option cross-product is sampled.

func init() { hx.Register("C38", "C38", runC38) }

type c38Cfg struct {
	sizeMax    int
	trigramMax int
	largeFiles []string
	versions   []string // version per branch
	branches   []string
	url        string
	rawConfig  string
}

func (c c38Cfg) opts(dir string) index.Options {
	o := index.Options{IndexDir: dir, ShardMax: 400, Parallelism: 1, DisableCTags: true, SizeMax: c.sizeMax, TrigramMax: c.trigramMax, LargeFiles: c.largeFiles,
		RepositoryDescription: zoekt.Repository{ID: 9, Name: "inc", URL: c.url, RawConfig: map[string]string{"priority": c.rawConfig}}}
	for i, b := range c.branches {
		o.RepositoryDescription.Branches = append(o.RepositoryDescription.Branches, zoekt.RepositoryBranch{Name: b, Version: c.versions[i]})
	}
	return o
}

func (c c38Cfg) String() string {
	return fmt.Sprintf("{SizeMax:%d TrigramMax:%d LargeFiles:%v branches:%v@%v url:%s prio:%s}", c.sizeMax, c.trigramMax, c.largeFiles, c.branches, c.versions, c.url, c.rawConfig)
}

func c38Docs() []c12Doc {
	// distinct trigrams: a long line of distinct characters
	var many strings.Builder
	for i := 0; i < 120; i++ {
		many.WriteString(fmt.Sprintf("%c%c%c ", 'a'+i%26, 'A'+(i/3)%26, '0'+i%10))
	}
	return []c12Doc{
		{"small.txt", "needle small file\n"},
		{"medium.txt", strings.Repeat("needle medium line\n", 12)},
		{"large.dat", strings.Repeat("needle large line of a large file\n", 40)},
		{"trigrams.txt", "needle " + many.String() + "\n"},
		{"other.go", "package main\n// needle\n"},
	}
}

func c38Build(o index.Options, docs []c12Doc) error {
	b, err := index.NewBuilder(o)
	if err != nil {
		return err
	}
	for _, d := range docs {
		br := []string{}
		for _, rb := range o.RepositoryDescription.Branches {
			br = append(br, rb.Name)
		}
		if err := b.Add(index.Document{Name: d.name, Content: []byte(d.content), Branches: br}); err != nil {
			return err
		}
	}
	return b.Finish()
}

func runC38(t *testing.T, tp *simrt.Tape, keepTrace bool) hx.Result {
	base, err := os.MkdirTemp(scratchDir(), "c38-")
	if err != nil {
		return hx.Result{HarnessErr: err.Error()}
	}
	defer os.RemoveAll(base)
	var res hx.Result
	res.Faults, res.Offered = map[string]int{}, map[string]int{}
	docs := c38Docs()
	a := c38Cfg{sizeMax: []int{100, 400, 1 << 20}[tp.Gen(3)], trigramMax: []int{50, 20000}[tp.Gen(2)], branches: []string{"HEAD"}, versions: []string{"v1"}, url: "http://example/inc", rawConfig: "1"}
	// LargeFiles is an ordered list: the last matching pattern wins and "!" negates
	lfChoices := [][]string{nil, {"*.dat"}, {"*.dat", "!large.dat"}, {"!large.dat", "*.dat"}, {"*.dat", "!large.dat", "*.dat"}, {"*.txt", "*.dat"}}
	a.largeFiles = lfChoices[[]int{0, 0, 1, 2, 3, 5}[tp.Gen(6)]]
	if tp.Gen(3) == 0 {
		a.branches, a.versions = []string{"HEAD", "dev"}, []string{"v1", "d1"}
	}
	dir := filepath.Join(base, "index")
	os.MkdirAll(dir, 0o755)
	if err := c38Build(a.opts(dir), docs); err != nil {
		return hx.Result{HarnessErr: "first build: " + err.Error()}
	}
	// an earlier metadata-only update left .meta sidecars next to the shards
	// (written the way the indexserver's mergeMeta does)
	sidecars := false
	if tp.Gen(3) == 0 {
		shards, _ := filepath.Glob(filepath.Join(dir, "*.zoekt"))
		for _, sh := range shards {
			repos, _, err := index.ReadMetadataPath(sh)
			if err != nil || len(repos) != 1 {
				return hx.Result{HarnessErr: fmt.Sprintf("sidecar: %v %d", err, len(repos))}
			}
			tmpP, finalP, err := index.JsonMarshalRepoMetaTemp(sh, repos[0])
			if err != nil {
				return hx.Result{HarnessErr: "sidecar: " + err.Error()}
			}
			if err := os.Rename(tmpP, finalP); err != nil {
				return hx.Result{HarnessErr: "sidecar: " + err.Error()}
			}
		}
		sidecars = true
	}
	// change something (or nothing)
	b := a
	b.branches = append([]string(nil), a.branches...)
	b.versions = append([]string(nil), a.versions...)
	var changes []string
	contentChange, metaChange := false, false
	nCh := tp.GenRange(0, 2)
	for i := 0; i < nCh; i++ {
		kind := tp.Gen(10)
		if kind >= 8 {
			kind = 2
		}
		switch kind {
		case 0:
			v := []int{100, 400, 1 << 20}[tp.Gen(3)]
			if v != b.sizeMax {
				b.sizeMax = v
				changes = append(changes, "SizeMax")
				contentChange = true
			}
		case 1:
			v := []int{50, 20000}[tp.Gen(2)]
			if v != b.trigramMax {
				b.trigramMax = v
				changes = append(changes, "TrigramMax")
				contentChange = true
			}
		case 2:
			nl := lfChoices[tp.Gen(len(lfChoices))]
			if len(b.largeFiles) >= 2 && tp.Gen(2) == 0 {
				// the same patterns in another order, or with one repeated at the end
				if tp.Gen(2) == 0 {
					nl = append([]string(nil), b.largeFiles...)
					nl[0], nl[len(nl)-1] = nl[len(nl)-1], nl[0]
				} else {
					nl = append(append([]string(nil), b.largeFiles...), b.largeFiles[0])
				}
			}
			if fmt.Sprint(nl) != fmt.Sprint(b.largeFiles) {
				b.largeFiles = nl
				changes = append(changes, "LargeFiles")
				contentChange = true
			}
		case 7:
			// the same branches at the same versions, listed in another order: branch
			// order decides the branch mask bits and the version reported for a file
			if len(b.branches) == 2 {
				b.branches[0], b.branches[1] = b.branches[1], b.branches[0]
				b.versions[0], b.versions[1] = b.versions[1], b.versions[0]
				changes = append(changes, "branch-order")
				contentChange = true
			}
		case 3:
			b.versions[0] = b.versions[0] + "x"
			changes = append(changes, "branch-version")
			contentChange = true
		case 4:
			if len(b.branches) == 1 {
				b.branches, b.versions = append(b.branches, "dev"), append(b.versions, "d1")
			} else {
				b.branches, b.versions = b.branches[:1], b.versions[:1]
			}
			changes = append(changes, "branch-set")
			contentChange = true
		case 5:
			if tp.Gen(2) == 0 {
				b.url = "http://example/inc-renamed-host"
				changes = append(changes, "URL")
			} else {
				b.url = "" // the field is cleared (e.g. the web URL setting was removed)
				changes = append(changes, "URL-cleared")
			}
			metaChange = true
		case 6:
			b.rawConfig = "7"
			changes = append(changes, "RawConfig")
			metaChange = true
		default:
		}
	}
	// optionally a killed build with the new options in between
	killed := ""
	firstShardInstalled := false
	if tp.Gen(3) == 0 && (contentChange || metaChange) {
		p0 := simos.NewProc("indexer", simos.Plan{})
		probe := filepath.Join(base, "probe")
		copyDir(dir, probe)
		withProc(p0, func() { c38Build(b.opts(probe), docs) })
		var muts []simos.Op
		for _, o := range simos.StateOf(p0).Log {
			if o.Mut {
				muts = append(muts, o)
			}
		}
		if len(muts) > 0 {
			k := muts[tp.Fault(len(muts))]
			res.Offered["kill"]++
			p := simos.NewProc("indexer", simos.Plan{CrashAt: k.K})
			completed := withProc(p, func() { c38Build(b.opts(dir), docs) })
			if !completed {
				res.Faults["kill"]++
				killed = fmt.Sprintf("build with the new options killed before op %d (%s %s)", k.K, k.Name, c38TmpRe.ReplaceAllString(filepath.Base(k.Path), ".*.tmp"))
				// did the dying build already install its first shard (the one IndexState reads)?
				for _, o := range simos.StateOf(p).Log {
					if o.Mut && o.Name == "rename" && o.K < k.K && strings.HasSuffix(filepath.Base(o.Path), ".00000.zoekt") {
						firstShardInstalled = true
					}
				}
			}
		}
	}
	ob := b.opts(dir)
	state, _ := ob.IndexState()
	skip := ob.IncrementalSkipIndexing()
	res.Evals++
	desc := fmt.Sprintf("indexed with %v (sidecars from an earlier metadata update: %t); now %v; changes %v; %s; IndexState=%s skip=%t", a, sidecars, b, changes, killed, state, skip)
	cur := observe(dir)
	fresh := filepath.Join(base, "fresh")
	os.MkdirAll(fresh, 0o755)
	if err := c38Build(b.opts(fresh), docs); err != nil {
		return hx.Result{HarnessErr: "fresh build: " + err.Error()}
	}
	want := observe(fresh)
	what := "content"
	if len(changes) > 0 {
		what = strings.Join(changes, "+")
	}
	sub := "no-kill|" + what
	if killed != "" {
		// The narrow class "the killed build had already renamed its first shard
		// into place" is the C12 multi-file install window seen through
		// IndexState (which reads the first shard only).
		sub = "kill-before-first-shard-install"
		if firstShardInstalled {
			sub = "kill-after-first-shard-install"
		}
	}
	docsEqual := fmt.Sprint(cur.Docs) == fmt.Sprint(want.Docs) && len(cur.Unloadable) == 0
	if skip && !docsEqual {
		res.Violations = append(res.Violations, hx.Violation{Sig: "skipped-although-index-differs-from-fresh-build|" + sub,
			Detail: fmt.Sprintf("%s; indexed docs %v; a fresh build gives %v", desc, briefDocs(cur.Docs), briefDocs(want.Docs))})
	}
	if killed == "" && !contentChange && metaChange && state != index.IndexStateMeta {
		res.Violations = append(res.Violations, hx.Violation{Sig: "metadata-only-change-not-recognised|" + strings.Join(changes, "+"), Detail: desc})
	}
	if killed == "" && !contentChange && !metaChange && !skip {
		res.Violations = append(res.Violations, hx.Violation{Sig: "unchanged-repository-not-skipped|none", Detail: desc})
	}
	// When the decision is "re-index", do it: afterwards the same request must be
	// recognised as up to date and the index must be what a fresh build gives
	// (otherwise the repository is re-indexed on every run without converging).
	if !skip && killed == "" {
		if err := c38Build(b.opts(dir), docs); err != nil {
			res.Violations = append(res.Violations, hx.Violation{Sig: "re-index-fails", Detail: desc + ": " + err.Error()})
		} else {
			ob2 := b.opts(dir)
			st2, _ := ob2.IndexState()
			after := observe(dir)
			res.Evals++
			if st2 != index.IndexStateEqual {
				res.Violations = append(res.Violations, hx.Violation{Sig: "not-up-to-date-after-re-index", Detail: fmt.Sprintf("%s; after a successful re-index with the new options IndexState=%s; files %v", desc, st2, lsDir(dir))})
			} else if fmt.Sprint(after.Docs) != fmt.Sprint(want.Docs) || fmt.Sprint(after.Repos) != fmt.Sprint(want.Repos) || len(after.Unloadable) > 0 {
				res.Violations = append(res.Violations, hx.Violation{Sig: "index-differs-from-fresh-build-after-re-index", Detail: fmt.Sprintf("%s; after the re-index: docs %v repos %v; a fresh build gives docs %v repos %v; files %v", desc, briefDocs(after.Docs), after.Repos, briefDocs(want.Docs), want.Repos, lsDir(dir))})
			}
		}
	}
	res.Sample = map[string]any{"scenario": desc}
	res.Nontrivial = true
	res.Hash = hash64(a.String(), b.String(), killed, fmt.Sprint(sidecars))
	return res
}

// temp file names carry a random number
var c38TmpRe = regexp.MustCompile(`\.\d+\.tmp$`)

func briefDocs(docs []string) []string {
	var out []string
	for _, d := range docs {
		if len(d) > 70 {
			d = d[:70] + "..."
		}
		out = append(out, d)
	}
	return out
}
