package buildsim

import (
	"context"
	"fmt"
	"os"
	"path/filepath"
	"sort"
	"strings"

	"github.com/sourcegraph/zoekt"
	"github.com/sourcegraph/zoekt/index"
	"github.com/sourcegraph/zoekt/internal/tenant/systemtenant"
	"github.com/sourcegraph/zoekt/internal/verifsim/simos"
	"github.com/sourcegraph/zoekt/internal/verifsim/simrt"
	"github.com/sourcegraph/zoekt/query"
	"github.com/sourcegraph/zoekt/search"
)

var scratch string

func scratchDir() string {
	if scratch == "" {
		d, err := os.MkdirTemp("/dev/shm", "verif-b-")
		if err != nil {
			d, err = os.MkdirTemp("", "verif-b-")
			if err != nil {
				panic(err)
			}
		}
		scratch = d
	}
	return scratch
}

func copyDir(src, dst string) {
	os.MkdirAll(dst, 0o755)
	es, _ := os.ReadDir(src)
	for _, e := range es {
		if e.IsDir() {
			copyDir(filepath.Join(src, e.Name()), filepath.Join(dst, e.Name()))
			continue
		}
		b, err := os.ReadFile(filepath.Join(src, e.Name()))
		if err != nil {
			panic(err)
		}
		if err := os.WriteFile(filepath.Join(dst, e.Name()), b, 0o644); err != nil {
			panic(err)
		}
	}
}

func lsDir(dir string) []string {
	var out []string
	es, _ := os.ReadDir(dir)
	for _, e := range es {
		out = append(out, e.Name())
	}
	sort.Strings(out)
	return out
}

// inProc runs f as simulated process p on its own goroutine and reports
// whether f ran to completion (false: the process was killed).
func inProc(p *simrt.Proc, f func()) (completed bool) {
	done := make(chan struct{})
	go func() {
		defer close(done)
		f()
		completed = true
	}()
	<-done
	return completed
}

var seqMu = make(chan struct{}, 1)

// withProc installs p as the process of all non-task goroutines while f runs.
func withProc(p *simrt.Proc, f func()) bool {
	seqMu <- struct{}{}
	defer func() { <-seqMu }()
	simos.SetSeqProc(p)
	defer simos.SetSeqProc(nil)
	return inProc(p, f)
}

// dirState is what a freshly started searcher sees in a directory.
type dirState struct {
	Docs      []string // repo/name=content@version[branches]
	Repos     []string // name@branches
	Unloadable []string
}

func (s dirState) key() string {
	return strings.Join(s.Docs, "\n") + "\n--\n" + strings.Join(s.Repos, "\n") + "\n--\n" + strings.Join(s.Unloadable, "\n")
}

func (s dirState) repoDocs(repo string) []string {
	var out []string
	for _, d := range s.Docs {
		if strings.HasPrefix(d, repo+"/") {
			out = append(out, d)
		}
	}
	return out
}

func (s dirState) repoEntry(repo string) []string {
	var out []string
	for _, d := range s.Repos {
		if strings.HasPrefix(d, repo+"@") {
			out = append(out, d)
		}
	}
	return out
}

func sysCtx() context.Context { return systemtenant.WithUnsafeContext(context.Background()) }

func observe(dir string) dirState {
	var st dirState
	// every *.zoekt file must be loadable on its own (a truncated shard is not)
	fs, _ := filepath.Glob(filepath.Join(dir, "*.zoekt"))
	sort.Strings(fs)
	for _, fn := range fs {
		f, err := os.Open(fn)
		if err != nil {
			st.Unloadable = append(st.Unloadable, filepath.Base(fn)+": "+err.Error())
			continue
		}
		ifile, err := index.NewIndexFile(simos.Wrap(f))
		if err != nil {
			st.Unloadable = append(st.Unloadable, filepath.Base(fn)+": "+err.Error())
			continue
		}
		s, err := func() (s zoekt.Searcher, err error) {
			defer func() {
				if r := recover(); r != nil {
					err = fmt.Errorf("panic: %v", r)
				}
			}()
			return index.NewSearcher(ifile)
		}()
		if err != nil {
			ifile.Close()
			st.Unloadable = append(st.Unloadable, filepath.Base(fn)+": "+err.Error())
			continue
		}
		s.Close()
	}
	ss, err := search.NewDirectorySearcher(dir)
	if err != nil {
		st.Unloadable = append(st.Unloadable, "directory: "+err.Error())
		return st
	}
	defer ss.Close()
	res, err := ss.Search(sysCtx(), &query.Const{Value: true}, &zoekt.SearchOptions{Whole: true})
	if err != nil {
		st.Unloadable = append(st.Unloadable, "search: "+err.Error())
		return st
	}
	for _, f := range res.Files {
		st.Docs = append(st.Docs, fmt.Sprintf("%s/%s=%q@%s%v", f.Repository, f.FileName, f.Content, f.Version, f.Branches))
	}
	sort.Strings(st.Docs)
	rl, err := ss.List(sysCtx(), &query.Const{Value: true}, nil)
	if err != nil {
		st.Unloadable = append(st.Unloadable, "list: "+err.Error())
		return st
	}
	for _, e := range rl.Repos {
		st.Repos = append(st.Repos, fmt.Sprintf("%s@%v meta=%v", e.Repository.Name, e.Repository.Branches, e.Repository.Metadata))
	}
	sort.Strings(st.Repos)
	return st
}

func hash64(ss ...string) uint64 {
	h := uint64(0xcbf29ce484222325)
	for _, s := range ss {
		for i := 0; i < len(s); i++ {
			h ^= uint64(s[i])
			h *= 0x100000001b3
		}
		h ^= 0xfe
		h *= 0x100000001b3
	}
	return h
}

func relOps(ops []simos.Op, dir string) []string {
	var out []string
	for _, o := range ops {
		m := ""
		if !o.Mut {
			m = "(r)"
		}
		out = append(out, fmt.Sprintf("%d:%s%s %s", o.K, o.Name, m, strings.ReplaceAll(o.Path, dir+"/", "")))
	}
	return out
}
