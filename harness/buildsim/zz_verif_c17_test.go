package buildsim

import (
	"fmt"
	"os"
	"path/filepath"
	"sort"
	"strings"
	"testing"

	"github.com/sourcegraph/zoekt"
	"github.com/sourcegraph/zoekt/index"
	"github.com/sourcegraph/zoekt/internal/verifsim/hx"
	"github.com/sourcegraph/zoekt/internal/verifsim/simos"
	"github.com/sourcegraph/zoekt/internal/verifsim/simrt"
	"github.com/sourcegraph/zoekt/query"
	"github.com/sourcegraph/zoekt/search"
)

// C17: tombstoned repositories and paths stay hidden.
//
// One run = one compound shard and a history of set/unset (known and unknown
// ids) and file-tombstone operations. Every operation is first executed fault
// free (recorded), then re-executed on copies with every one of its
// file-system operations as kill point and as failing operation. After every
// execution the directory is reloaded by a fresh searcher and queried.

func init() { hx.Register("C17", "C17", runC17) }

type c17Repo struct {
	id   uint32
	name string
	docs map[string]string
}

type c17Model struct {
	tomb  map[uint32]bool
	files map[uint32]map[string]bool
}

func (m c17Model) clone() c17Model {
	n := c17Model{tomb: map[uint32]bool{}, files: map[uint32]map[string]bool{}}
	for k, v := range m.tomb {
		n.tomb[k] = v
	}
	for k, v := range m.files {
		n.files[k] = map[string]bool{}
		for f, b := range v {
			n.files[k][f] = b
		}
	}
	return n
}

// expected: what every query must return under the model.
func c17Expected(repos []*c17Repo, m c17Model) (docs []string, names []string) {
	for _, r := range repos {
		if m.tomb[r.id] {
			continue
		}
		names = append(names, r.name)
		for f, c := range r.docs {
			if m.files[r.id][f] {
				continue
			}
			docs = append(docs, fmt.Sprintf("%s/%s=%q", r.name, f, c))
		}
	}
	sort.Strings(docs)
	sort.Strings(names)
	return
}

type c17View struct {
	all, needle, bySet, byType []string
	listed, listedQ, listedIDs  []string
	urls                        []string // repository names in RepoURLs/LineFragments of the results
	err                         string
}

func (v c17View) key() string {
	return fmt.Sprint(v.all, "|", v.needle, "|", v.bySet, "|", v.byType, "|", v.listed, "|", v.listedQ, "|", v.listedIDs, "|", v.err)
}

func c17Observe(dir string, repos []*c17Repo) c17View {
	var v c17View
	ss, err := search.NewDirectorySearcher(dir)
	if err != nil {
		v.err = err.Error()
		return v
	}
	defer ss.Close()
	run := func(q query.Q) []string {
		r, err := ss.Search(sysCtx(), q, &zoekt.SearchOptions{Whole: true})
		if err != nil {
			v.err += "search " + q.String() + ": " + err.Error() + ";"
			return nil
		}
		if r.Stats.Crashes > 0 {
			v.err += fmt.Sprintf("search %s: crashes=%d;", q, r.Stats.Crashes)
		}
		var out []string
		for _, f := range r.Files {
			out = append(out, fmt.Sprintf("%s/%s=%q", f.Repository, f.FileName, f.Content))
		}
		for name := range r.RepoURLs {
			v.urls = append(v.urls, name)
		}
		for name := range r.LineFragments {
			v.urls = append(v.urls, name)
		}
		sort.Strings(out)
		return out
	}
	v.all = run(&query.Const{Value: true})
	v.needle = run(&query.Substring{Pattern: "needle"})
	set := map[string]bool{}
	for _, r := range repos {
		set[r.name] = true
	}
	v.bySet = run(&query.And{Children: []query.Q{&query.RepoSet{Set: set}, &query.Substring{Pattern: "needle"}}})
	v.byType = run(&query.And{Children: []query.Q{&query.Type{Type: query.TypeRepo, Child: &query.Substring{Pattern: "needle"}}, &query.Substring{Pattern: "needle"}}})
	rl, err := ss.List(sysCtx(), &query.Const{Value: true}, nil)
	if err != nil {
		v.err += "list: " + err.Error()
		return v
	}
	for _, e := range rl.Repos {
		v.listed = append(v.listed, e.Repository.Name)
	}
	sort.Strings(v.listed)
	// by repository id (same-named repositories share one entry in the listing by name)
	for qi, lq := range []query.Q{&query.Const{Value: true}, &query.Substring{Pattern: "needle"}} {
		rm, err := ss.List(sysCtx(), lq, &zoekt.ListOptions{Field: zoekt.RepoListFieldReposMap})
		if err != nil {
			v.err += "list(reposmap): " + err.Error()
			return v
		}
		for id := range rm.ReposMap {
			v.listedIDs = append(v.listedIDs, fmt.Sprintf("q%d:%d", qi, id))
		}
	}
	sort.Strings(v.listedIDs)
	// a listing driven by a content query takes another path through the shard
	rl2, err := ss.List(sysCtx(), &query.Substring{Pattern: "needle"}, nil)
	if err != nil {
		v.err += "list(needle): " + err.Error()
		return v
	}
	for _, e := range rl2.Repos {
		v.listedQ = append(v.listedQ, e.Repository.Name)
	}
	sort.Strings(v.listedQ)
	return v
}

// c17Check compares a view with the model; returns a problem description.
func c17Check(v c17View, repos []*c17Repo, m c17Model) string {
	docs, names := c17Expected(repos, m)
	if v.err != "" {
		return "searcher error: " + v.err
	}
	for _, got := range [][]string{v.all, v.needle, v.bySet, v.byType} {
		if fmt.Sprint(got) != fmt.Sprint(docs) {
			hidden := []string{}
			for _, g := range got {
				found := false
				for _, d := range docs {
					if d == g {
						found = true
					}
				}
				if !found {
					hidden = append(hidden, g)
				}
			}
			if len(hidden) > 0 {
				return fmt.Sprintf("tombstoned content visible: %v (tombstoned repos %v, files %v)", hidden, m.tomb, m.files)
			}
			return fmt.Sprintf("results %v differ from the model %v", got, docs)
		}
	}
	for _, u := range v.urls {
		ok := false
		for _, n := range names {
			if n == u {
				ok = true
			}
		}
		if !ok {
			return fmt.Sprintf("tombstoned repository %s named in RepoURLs/LineFragments of a search result", u)
		}
	}
	names = c17Uniq(names)
	if fmt.Sprint(v.listed) != fmt.Sprint(names) {
		return fmt.Sprintf("listing %v differs from the model %v", v.listed, names)
	}
	var wantIDs []string
	for qi := 0; qi < 2; qi++ {
		for _, r := range repos {
			if m.tomb[r.id] {
				continue
			}
			visible := false
			for f := range r.docs {
				if !m.files[r.id][f] {
					visible = true
				}
			}
			if qi == 0 || visible {
				wantIDs = append(wantIDs, fmt.Sprintf("q%d:%d", qi, r.id))
			}
		}
	}
	sort.Strings(wantIDs)
	if fmt.Sprint(v.listedIDs) != fmt.Sprint(wantIDs) {
		// A shard matches a content query to repositories by NAME, so a live repository
		// without a visible match is listed when a same-named repository matches. That
		// is not a tombstone matter; what the property demands is that no tombstoned
		// repository is listed and that no live, matching one is missing.
		got := map[string]bool{}
		for _, x := range v.listedIDs {
			got[x] = true
		}
		for _, x := range wantIDs {
			if !got[x] {
				return fmt.Sprintf("listing by id %v lacks %s of the model %v (q0 = match-all, q1 = content query)", v.listedIDs, x, wantIDs)
			}
		}
		want := map[string]bool{}
		for _, x := range wantIDs {
			want[x] = true
		}
		for _, x := range v.listedIDs {
			if want[x] {
				continue
			}
			explained := false
			for _, r := range repos {
				if x == fmt.Sprintf("q1:%d", r.id) && !m.tomb[r.id] {
					for _, o := range repos {
						if o != r && o.name == r.name && want[fmt.Sprintf("q1:%d", o.id)] {
							explained = true
						}
					}
				}
			}
			if !explained {
				return fmt.Sprintf("listing by id %v holds %s which the model %v does not (q0 = match-all, q1 = content query; tombstoned %v)", v.listedIDs, x, wantIDs, m.tomb)
			}
		}
	}
	var namesQ []string
	for _, r := range repos {
		if m.tomb[r.id] {
			continue
		}
		for f := range r.docs {
			if !m.files[r.id][f] {
				namesQ = append(namesQ, r.name)
				break
			}
		}
	}
	sort.Strings(namesQ)
	namesQ = c17Uniq(namesQ)
	if fmt.Sprint(v.listedQ) != fmt.Sprint(namesQ) {
		return fmt.Sprintf("listing for a content query %v differs from the model %v", v.listedQ, namesQ)
	}
	return ""
}

func c17Uniq(in []string) []string {
	var out []string
	for i, s := range in {
		if i == 0 || s != in[i-1] {
			out = append(out, s)
		}
	}
	return out
}

type c17Op struct {
	kind string // set unset fileset
	id   uint32
	file string
}

func (o c17Op) String() string { return fmt.Sprintf("%s(%d %s)", o.kind, o.id, o.file) }

func c17Apply(shard string, o c17Op) error {
	switch o.kind {
	case "set":
		return index.SetTombstone(shard, o.id)
	case "unset":
		return index.UnsetTombstone(shard, o.id)
	case "fileset":
		// what a delta build does: rewrite the sidecar with a file tombstone
		repos, _, err := index.ReadMetadataPath(shard)
		if err != nil {
			return err
		}
		for _, r := range repos {
			if r.ID == o.id {
				if r.FileTombstones == nil {
					r.FileTombstones = map[string]struct{}{}
				}
				r.FileTombstones[o.file] = struct{}{}
			}
		}
		tmp, final, err := index.JsonMarshalRepoMetaTemp(shard, repos)
		if err != nil {
			return err
		}
		if err := simos.Rename(tmp, final); err != nil {
			simos.Remove(tmp)
			return err
		}
		return nil
	}
	return nil
}

func (m *c17Model) apply(o c17Op, repos []*c17Repo) {
	known := false
	for _, r := range repos {
		if r.id == o.id {
			known = true
		}
	}
	if !known {
		return
	}
	switch o.kind {
	case "set":
		m.tomb[o.id] = true
	case "unset":
		m.tomb[o.id] = false
	case "fileset":
		if m.files[o.id] == nil {
			m.files[o.id] = map[string]bool{}
		}
		m.files[o.id][o.file] = true
	}
}

func runC17(t *testing.T, tp *simrt.Tape, keepTrace bool) hx.Result {
	base, err := os.MkdirTemp(scratchDir(), "c17-")
	if err != nil {
		return hx.Result{HarnessErr: err.Error()}
	}
	defer os.RemoveAll(base)
	var res hx.Result
	res.Faults, res.Offered = map[string]int{}, map[string]int{}
	seen := map[string]bool{}
	report := func(sig, detail string) {
		if !seen[sig] {
			seen[sig] = true
			res.Violations = append(res.Violations, hx.Violation{Sig: sig, Detail: detail})
		}
	}
	nRepos := tp.GenRange(2, 5)
	sameName := tp.Gen(3) == 0
	var repos []*c17Repo
	tmp := filepath.Join(base, "tmp")
	os.MkdirAll(tmp, 0o755)
	for i := 0; i < nRepos; i++ {
		r := &c17Repo{id: uint32(10 + i), name: fmt.Sprintf("repo%d", i), docs: map[string]string{}}
		if i == 1 && sameName {
			r.name = "repo0" // two repositories (different ids) with one name in the compound shard
		}
		nd := tp.GenRange(1, 3)
		var docs []c12Doc
		for d := 0; d < nd; d++ {
			name := fmt.Sprintf("f%d.txt", d)
			content := fmt.Sprintf("needle in %s (id %d) file %d\n", r.name, r.id, d)
			r.docs[name] = content
			docs = append(docs, c12Doc{name, content})
		}
		rdir := filepath.Join(tmp, fmt.Sprint(i)) // one directory each: same-named repositories have same-named shard files
		os.MkdirAll(rdir, 0o755)
		o := index.Options{IndexDir: rdir, ShardMax: 1 << 20, Parallelism: 1, DisableCTags: true, SizeMax: 1 << 20, TrigramMax: 20000,
			RepositoryDescription: zoekt.Repository{ID: r.id, Name: r.name, Branches: []zoekt.RepositoryBranch{{Name: "HEAD", Version: "v1"}}}}
		if e, _ := c12Build(o, docs, nil); e != nil {
			return hx.Result{HarnessErr: "build: " + e.Error()}
		}
		repos = append(repos, r)
	}
	dir := filepath.Join(base, "index")
	os.MkdirAll(dir, 0o755)
	var files []index.IndexFile
	shards, _ := filepath.Glob(filepath.Join(tmp, "*", "*.zoekt"))
	sort.Strings(shards)
	for _, fn := range shards {
		f, err := os.Open(fn)
		if err != nil {
			return hx.Result{HarnessErr: err.Error()}
		}
		ifile, err := index.NewIndexFile(simos.Wrap(f))
		if err != nil {
			return hx.Result{HarnessErr: err.Error()}
		}
		defer ifile.Close()
		files = append(files, ifile)
	}
	tmpName, dstName, err := index.Merge(dir, files...)
	if err != nil {
		return hx.Result{HarnessErr: "merge: " + err.Error()}
	}
	if err := os.Rename(tmpName, dstName); err != nil {
		return hx.Result{HarnessErr: err.Error()}
	}
	shard := dstName
	model := c17Model{tomb: map[uint32]bool{}, files: map[uint32]map[string]bool{}}
	if p := c17Check(c17Observe(dir, repos), repos, model); p != "" {
		return hx.Result{HarnessErr: "pristine compound shard does not match the model: " + p}
	}
	nOps := tp.GenRange(3, 10)
	var history []string
	n := 0
	for i := 0; i < nOps; i++ {
		o := c17Op{kind: []string{"set", "set", "unset", "fileset"}[tp.Gen(4)]}
		if tp.Gen(6) == 0 {
			o.id = 99 // unknown id
		} else {
			o.id = repos[tp.Gen(len(repos))].id
		}
		o.file = fmt.Sprintf("f%d.txt", tp.Gen(3))
		before := model.clone()
		after := model.clone()
		after.apply(o, repos)
		// fault-free execution on a copy, recorded
		ref := filepath.Join(base, fmt.Sprintf("ref%d", i))
		copyDir(dir, ref)
		p0 := simos.NewProc("tombstoner", simos.Plan{})
		var opErr error
		withProc(p0, func() { opErr = c17Apply(filepath.Join(ref, filepath.Base(shard)), o) })
		ops := simos.StateOf(p0).Log
		res.Evals++
		history = append(history, o.String())
		where := func() string {
			return fmt.Sprintf("history %v; ops of the last operation: %s", history, strings.Join(relOps(ops, ref), "; "))
		}
		if opErr != nil {
			report("fault-free-operation-fails|"+o.kind, opErr.Error()+"; "+where())
			os.RemoveAll(ref)
			break
		}
		if p := c17Check(c17Observe(ref, repos), repos, after); p != "" {
			report("fault-free-operation-has-wrong-effect|"+o.kind, p+"; "+where())
			os.RemoveAll(ref)
			break
		}
		os.RemoveAll(ref)
		// enumerate faults of this operation
		for _, op := range ops {
			variants := []struct {
				label string
				plan  simos.Plan
			}{{"fail", simos.Plan{FailAt: op.K}}}
			if op.Mut {
				variants = append(variants, struct {
					label string
					plan  simos.Plan
				}{"kill-before", simos.Plan{CrashAt: op.K}})
				if op.Name == "write" && op.Size > 1 {
					variants = append(variants, struct {
						label string
						plan  simos.Plan
					}{"kill-inside", simos.Plan{CrashAt: op.K, CrashInWrite: true}})
				}
			}
			for _, vr := range variants {
				n++
				d := filepath.Join(base, fmt.Sprintf("x%d", n))
				copyDir(dir, d)
				p := simos.NewProc("tombstoner", vr.plan)
				var e error
				completed := withProc(p, func() { e = c17Apply(filepath.Join(d, filepath.Base(shard)), o) })
				for k, v := range simos.StateOf(p).Fired {
					res.Faults[k] += v
				}
				res.Offered[vr.label+"-"+op.Name]++
				view := c17Observe(d, repos)
				res.Evals++
				pOld, pNew := c17Check(view, repos, before), c17Check(view, repos, after)
				cls := "neither"
				if pOld == "" {
					cls = "old"
				}
				if pNew == "" {
					cls = "new" // old==new possible (idempotent op): then "new"
				}
				res.Distinct = append(res.Distinct, hash64(fmt.Sprint(history), vr.label, fmt.Sprint(op.K), cls))
				detail := func() string {
					return fmt.Sprintf("%s %s op %d (%s %s): completed=%t err=%v -> state is %s (vs old: %s | vs new: %s); files %v; %s", o, vr.label, op.K, op.Name, filepath.Base(op.Path), completed, e, cls, pOld, pNew, lsDir(d), where())
				}
				flabel := vr.label
				if vr.label == "fail" {
					flabel = "fail-" + op.Name
				}
				switch {
				case completed && e == nil && pNew != "":
					report("success-reported-without-effect|"+flabel+"|"+o.kind, detail())
				case completed && e != nil && pOld != "" && pNew == "":
					// reported failure but took effect: tolerated? an operation that reports an
					// error should not have changed what searches see
					report("failure-reported-but-took-effect|"+flabel+"|"+o.kind, detail())
				case cls == "neither":
					report("state-neither-old-nor-new|"+flabel+"|"+o.kind, detail())
				}
				os.RemoveAll(d)
			}
		}
		// continue the history fault free on the real directory
		if err := c17Apply(shard, o); err != nil {
			report("fault-free-operation-fails|"+o.kind, err.Error())
			break
		}
		model = after
		// idempotence: applying it again changes nothing
		if tp.Gen(3) == 0 {
			if err := c17Apply(shard, o); err != nil {
				report("repeated-operation-fails|"+o.kind, err.Error()+"; "+where())
			}
			res.Evals++
			if p := c17Check(c17Observe(dir, repos), repos, model); p != "" {
				report("operation-not-idempotent|"+o.kind, p+"; "+where())
			}
		}
	}
	res.Sample = map[string]any{"repos": nRepos, "history": history, "executions": res.Evals}
	res.Nontrivial = len(history) > 0
	res.Hash = hash64(fmt.Sprint(nRepos), fmt.Sprint(history))
	return res
}
