package buildsim

import (
	"fmt"

	"github.com/RoaringBitmap/roaring/v2"
	"os"
	"path/filepath"
	"sort"
	"strings"
	"testing"
	"time"

	"github.com/sourcegraph/zoekt"
	"github.com/sourcegraph/zoekt/index"
	"github.com/sourcegraph/zoekt/internal/verifsim/hx"
	"github.com/sourcegraph/zoekt/internal/verifsim/simos"
	"github.com/sourcegraph/zoekt/internal/verifsim/simrt"
	"github.com/sourcegraph/zoekt/query"
	"github.com/sourcegraph/zoekt/search"
)

// C10: results do not depend on how the index was built. Claim: the
// concurrency / buffer-reuse / shard-split / insertion-order / compound-shard
// dimension under the seeded scheduler; the corpus space is sampled.

func init() { hx.Register("C10", "C10", runC10) }

type c10Doc struct {
	name, content string
	branches      []string
}

func c10Queries() []query.Q {
	return []query.Q{
		&query.Const{Value: true},
		&query.Substring{Pattern: "needle"},
		&query.Substring{Pattern: "Needle", CaseSensitive: true},
		&query.And{Children: []query.Q{&query.Substring{Pattern: "alpha"}, &query.Substring{Pattern: "beta"}}},
		&query.Branch{Pattern: "dev"},
		&query.Substring{Pattern: ".go", FileName: true},
		&query.And{Children: []query.Q{&query.Branch{Pattern: "HEAD", Exact: true}, &query.Substring{Pattern: "gamma"}}},
		// non-ASCII trigrams take a different path through the postings builder
		&query.Substring{Pattern: "日本語"},
		&query.Substring{Pattern: "αβγδ", CaseSensitive: true},
		&query.Substring{Pattern: "héllo wörld"},
		&query.Substring{Pattern: "🙂x"},
		// repository filters by id pre-select shards; a repository may span several
		&query.And{Children: []query.Q{&query.RepoIDs{Repos: roaring.BitmapOf(1)}, &query.Substring{Pattern: "needle"}}},
		&query.And{Children: []query.Q{&query.BranchesRepos{List: []query.BranchRepos{{Branch: "HEAD", Repos: roaring.BitmapOf(2)}}}, &query.Const{Value: true}}},
	}
}

// c10View: for every query the sorted normalised file matches (no scores: the
// property is about which documents, matches and branches are found).
func c10View(dir string) ([]string, error) {
	ss, err := search.NewDirectorySearcher(dir)
	if err != nil {
		return nil, err
	}
	defer ss.Close()
	var out []string
	for qi, q := range c10Queries() {
		r, err := ss.Search(sysCtx(), q, &zoekt.SearchOptions{Whole: qi == 0})
		if err != nil {
			return nil, fmt.Errorf("query %s: %w", q, err)
		}
		if r.Stats.Crashes > 0 {
			return nil, fmt.Errorf("query %s: crashes=%d", q, r.Stats.Crashes)
		}
		var fs []string
		for _, f := range r.Files {
			var b strings.Builder
			fmt.Fprintf(&b, "q%d %s/%s br=%v lang=%s", qi, f.Repository, f.FileName, f.Branches, f.Language)
			if f.Content != nil {
				fmt.Fprintf(&b, " content=%q", f.Content)
			}
			lms := append([]zoekt.LineMatch(nil), f.LineMatches...)
			sort.Slice(lms, func(i, j int) bool { return lms[i].LineNumber < lms[j].LineNumber })
			for _, lm := range lms {
				fmt.Fprintf(&b, " L%d:%q", lm.LineNumber, lm.Line)
				for _, fr := range lm.LineFragments {
					fmt.Fprintf(&b, "(%d,%d)", fr.LineOffset, fr.MatchLength)
				}
			}
			fs = append(fs, b.String())
		}
		sort.Strings(fs)
		out = append(out, fs...)
	}
	return out, nil
}

var c10TrigramMax = 20000

func c10Opts(dir string, id uint32, name string, branches []string, shardMax, par int) index.Options {
	o := index.Options{IndexDir: dir, ShardMax: shardMax, Parallelism: par, DisableCTags: true, SizeMax: 1 << 20, TrigramMax: c10TrigramMax,
		RepositoryDescription: zoekt.Repository{ID: id, Name: name}}
	for _, b := range branches {
		o.RepositoryDescription.Branches = append(o.RepositoryDescription.Branches, zoekt.RepositoryBranch{Name: b, Version: "v-" + b})
	}
	return o
}

func c10Build(o index.Options, docs []c10Doc) error {
	b, err := index.NewBuilder(o)
	if err != nil {
		return err
	}
	var first error
	for _, d := range docs {
		if e := b.Add(index.Document{Name: d.name, Content: []byte(d.content), Branches: d.branches}); e != nil && first == nil {
			first = e
		}
	}
	if e := b.Finish(); e != nil {
		return e
	}
	return first
}

func runC10(t *testing.T, tp *simrt.Tape, keepTrace bool) hx.Result {
	cfg := simrt.DrawConfig(tp)
	cfg.KeepTrace = keepTrace
	cfg.JumpPerMille = 0
	cfg.MaxSteps = 400000
	cfg.Horizon = 24 * time.Hour
	base, err := os.MkdirTemp(scratchDir(), "c10-")
	if err != nil {
		return hx.Result{HarnessErr: err.Error()}
	}
	defer os.RemoveAll(base)
	vocab := []string{"needle", "Needle", "alpha", "beta", "gamma", "delta", "func", "return", "zoekt", "日本語", "αβγδ", "héllo wörld", "🙂x"}
	// a small TrigramMax makes "too many trigrams" documents cheap to generate
	c10TrigramMax = []int{20000, 1000}[tp.Gen(2)]
	genRepo := func(name string) ([]c10Doc, []string) {
		branches := []string{"HEAD"}
		if tp.Gen(2) == 0 {
			branches = append(branches, "dev")
		}
		n := tp.GenRange(3, 18)
		var docs []c10Doc
		for i := 0; i < n; i++ {
			var sb strings.Builder
			lines := tp.GenRange(1, 6)
			for l := 0; l < lines; l++ {
				toks := tp.GenRange(1, 5)
				for k := 0; k < toks; k++ {
					sb.WriteString(vocab[tp.Gen(len(vocab))])
					sb.WriteByte(' ')
				}
				sb.WriteByte('\n')
			}
			d := c10Doc{name: fmt.Sprintf("d%d/f%d%s", i%3, i, []string{".go", ".txt", ".md"}[tp.Gen(3)]), content: sb.String(), branches: []string{"HEAD"}}
			if len(branches) == 2 {
				d.branches = [][]string{{"HEAD"}, {"dev"}, {"HEAD", "dev"}}[tp.Gen(3)]
			}
			if tp.Gen(12) == 0 {
				d.content = "binary\x00content" // skipped document (binary)
			}
			switch tp.Gen(10) {
			case 0:
				// more distinct trigrams than TrigramMax=1000 allows: skipped with a marker
				var many strings.Builder
				for k := 0; k < 700; k++ {
					fmt.Fprintf(&many, "%c%c%c ", 'a'+k%26, 'A'+(k/26)%26, '0'+(k/7)%10)
				}
				d.content = "needle " + many.String() + "\n"
			case 1, 2:
				// an ordinary but long document (few distinct trigrams, > TrigramMax bytes)
				d.content = strings.Repeat(d.content, 1+1200/(len(d.content)+1))
			}
			docs = append(docs, d)
		}
		return docs, branches
	}
	docsA, brA := genRepo("repoA")
	docsB, brB := genRepo("repoB")
	par := []int{1, 2, 4, 16}[tp.Gen(4)]
	shardMax := []int{60, 150, 400, 1 << 20}[tp.Gen(4)]
	compound := tp.Gen(3) == 0
	// permuted insertion order
	perm := func(d []c10Doc) []c10Doc {
		out := append([]c10Doc(nil), d...)
		for i := 0; i < len(out)-1; i++ {
			j := i + tp.Gen(len(out)-i)
			out[i], out[j] = out[j], out[i]
		}
		return out
	}
	pA, pB := perm(docsA), perm(docsB)
	// reference: sequential, one shard per repository, original order
	refDir := filepath.Join(base, "ref")
	os.MkdirAll(refDir, 0o755)
	if err := c10Build(c10Opts(refDir, 1, "repoA", brA, 1<<20, 1), docsA); err != nil {
		return hx.Result{HarnessErr: "reference build A: " + err.Error()}
	}
	if err := c10Build(c10Opts(refDir, 2, "repoB", brB, 1<<20, 1), docsB); err != nil {
		return hx.Result{HarnessErr: "reference build B: " + err.Error()}
	}
	want, err := c10View(refDir)
	if err != nil {
		return hx.Result{HarnessErr: "reference view: " + err.Error()}
	}
	// system under test: built under the scheduler
	sutDir := filepath.Join(base, "sut")
	os.MkdirAll(sutDir, 0o755)
	var buildErr error
	finished := false
	s, res := hx.Sim(t, tp, cfg, func() {
		// both repositories are built concurrently by two indexer tasks sharing nothing
		done := make(chan error, 2)
		simrt.GoNamed("indexerA", func() {
			var e error
			defer func() {
				if r := recover(); r != nil {
					e = fmt.Errorf("panic: %v", r)
				}
				simrt.Send(done, "c10done")(e)
			}()
			e = c10Build(c10Opts(sutDir, 1, "repoA", brA, shardMax, par), pA)
		})
		simrt.GoNamed("indexerB", func() {
			var e error
			defer func() {
				if r := recover(); r != nil {
					e = fmt.Errorf("panic: %v", r)
				}
				simrt.Send(done, "c10done")(e)
			}()
			e = c10Build(c10Opts(sutDir, 2, "repoB", brB, shardMax, par), pB)
		})
		for i := 0; i < 2; i++ {
			if e := simrt.Recv(done, "c10main"); e != nil && buildErr == nil {
				buildErr = e
			}
		}
		finished = true
	})
	var viol *hx.Violation
	if s != nil && res.HarnessErr == "" {
		if s.Deadlocked() {
			viol = &hx.Violation{Sig: "deadlock|build", Detail: strings.Join(s.BlockedSites(), " ")}
		} else if s.OverBudget() {
			res.HarnessErr = "step budget exceeded"
		} else if !finished {
			res.HarnessErr = "main task did not finish"
		}
	}
	desc := fmt.Sprintf("repoA %d docs %v, repoB %d docs %v, parallelism %d, shardMax %d, compound %t", len(docsA), brA, len(docsB), brB, par, shardMax, compound)
	nShards := 0
	if viol == nil && res.HarnessErr == "" {
		if buildErr != nil {
			viol = &hx.Violation{Sig: "build-fails|parallel", Detail: buildErr.Error() + "; " + desc}
		}
	}
	if viol == nil && res.HarnessErr == "" {
		shards, _ := filepath.Glob(filepath.Join(sutDir, "*.zoekt"))
		nShards = len(shards)
		if compound {
			sort.Strings(shards)
			var files []index.IndexFile
			for _, fn := range shards {
				f, err := os.Open(fn)
				if err != nil {
					return hx.Result{HarnessErr: err.Error()}
				}
				ifile, err := index.NewIndexFile(simos.Wrap(f))
				if err != nil {
					viol = &hx.Violation{Sig: "built-shard-unloadable|parallel", Detail: err.Error() + "; " + desc}
					break
				}
				defer ifile.Close()
				files = append(files, ifile)
			}
			if viol == nil {
				tmpName, dstName, err := index.Merge(sutDir, files...)
				if err != nil {
					viol = &hx.Violation{Sig: "merge-of-built-shards-fails|compound", Detail: err.Error() + "; " + desc}
				} else {
					for _, fn := range shards {
						os.Remove(fn)
					}
					os.Rename(tmpName, dstName)
				}
			}
		}
	}
	if viol == nil && res.HarnessErr == "" {
		got, err := c10View(sutDir)
		if err != nil {
			viol = &hx.Violation{Sig: "search-over-built-index-fails|view", Detail: err.Error() + "; " + desc}
		} else if fmt.Sprint(got) != fmt.Sprint(want) {
			gm, wm := map[string]bool{}, map[string]bool{}
			for _, x := range got {
				gm[x] = true
			}
			for _, x := range want {
				wm[x] = true
			}
			var missing, extra []string
			for _, x := range want {
				if !gm[x] {
					missing = append(missing, x)
				}
			}
			for _, x := range got {
				if !wm[x] {
					extra = append(extra, x)
				}
			}
			if len(missing) > 3 {
				missing = missing[:3]
			}
			if len(extra) > 3 {
				extra = extra[:3]
			}
			mode := "simple-shards"
			if compound {
				mode = "compound"
			}
			viol = &hx.Violation{Sig: "results-differ-from-reference-build|" + mode, Detail: fmt.Sprintf("missing %q extra %q (%d vs %d entries); %s; %d shards", missing, extra, len(got), len(want), desc, nShards)}
		}
	}
	res.Violation = viol
	res.Nontrivial = res.Switches >= 2 && len(want) > 0
	res.Sample = map[string]any{"scenario": desc, "shards": nShards, "steps": res.Steps, "switches": res.Switches, "probes": res.Probes}
	return res
}
