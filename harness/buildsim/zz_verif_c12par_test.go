package buildsim

import (
	"fmt"
	"os"
	"path/filepath"
	"strings"
	"testing"
	"time"

	"github.com/sourcegraph/zoekt/internal/verifsim/hx"
	"github.com/sourcegraph/zoekt/internal/verifsim/simos"
	"github.com/sourcegraph/zoekt/internal/verifsim/simrt"
)

// C12/par: the kill dimension combined with the schedule dimension. The new
// build runs with Parallelism 4 as a simulated process under the seeded
// scheduler (its shard builds are concurrent tasks of that process) and the
// process is killed before a fault-stream-chosen file-system operation; which
// operation that is depends on the interleaving of the shard builds. Afterwards
// a fresh searcher must see the old or the new index; the only tolerated mix is
// the recorded install window (the dying process had already renamed at least
// one artifact into place).

func init() { hx.Register("C12/par", "C12", runC12Par) }

func runC12Par(t *testing.T, tp *simrt.Tape, keepTrace bool) hx.Result {
	sc := c12Gen(tp)
	if sc.kind == "merging" {
		sc.kind = "full"
	}
	sc.oldDelta = false
	cfg := simrt.DrawConfig(tp)
	cfg.KeepTrace = keepTrace
	cfg.JumpPerMille = 0
	cfg.MaxSteps = 400000
	cfg.Horizon = 24 * time.Hour
	base, err := os.MkdirTemp(scratchDir(), "c12p-")
	if err != nil {
		return hx.Result{HarnessErr: err.Error()}
	}
	defer os.RemoveAll(base)
	oldDir := filepath.Join(base, "old")
	os.MkdirAll(oldDir, 0o755)
	if e, _ := c12Build(c12Opts(oldDir, 1, sc.oldShard, nil), sc.oldDocs, nil); e != nil {
		return hx.Result{HarnessErr: "old build: " + e.Error()}
	}
	newBuild := func(dir string, par int) (error, error) {
		o := c12Opts(dir, 2, sc.newShard, sc)
		o.Parallelism = par
		if sc.kind == "delta" {
			o.IsDelta = true
			return c12Build(o, sc.deltaAdd, sc.changed)
		}
		return c12Build(o, sc.newDocs, nil)
	}
	refDir := filepath.Join(base, "ref")
	copyDir(oldDir, refDir)
	if fe, ae := newBuild(refDir, 1); fe != nil || ae != nil {
		return hx.Result{HarnessErr: fmt.Sprintf("reference build: %v %v", fe, ae)}
	}
	oldState, newState := observe(oldDir), observe(refDir)
	if len(oldState.Unloadable)+len(newState.Unloadable) > 0 {
		return hx.Result{HarnessErr: "reference states unloadable"}
	}
	sut := filepath.Join(base, "sut")
	copyDir(oldDir, sut)
	k := 1 + tp.Fault(70)
	proc := simos.NewProc("indexer", simos.Plan{CrashAt: k})
	var fe, ae error
	completed := false
	s, res := hx.Sim(t, tp, cfg, func() {
		done := make(chan struct{}, 1)
		simrt.GoProc(proc, "indexer", func() {
			defer func() { simrt.Send(done, "c12pdone")(struct{}{}) }()
			fe, ae = newBuild(sut, 4)
			completed = true
		})
		// the indexer either finishes or dies; a dead process never sends
		for i := 0; i < 200000 && !completed && !proc.Dead; i++ {
			simrt.Sleep(time.Millisecond)
		}
		if completed {
			simrt.Recv(done, "c12pmain")
		} else {
			simrt.Sleep(time.Second) // let the dead process's tasks unwind
		}
	})
	if res.HarnessErr != "" || s == nil {
		return res
	}
	if s.OverBudget() {
		res.HarnessErr = "step budget exceeded"
		return res
	}
	res.Faults, res.Offered = map[string]int{}, map[string]int{"kill": 1}
	st := observe(sut)
	log := simos.StateOf(proc).Log
	installed := 0
	for _, o := range log {
		if (o.Name == "rename" || o.Name == "remove") && (strings.HasSuffix(o.Path, ".zoekt") || strings.HasSuffix(o.Path, ".meta")) && (proc.Dead && o.K < k || !proc.Dead) {
			installed++
		}
	}
	cls := "mixed"
	switch {
	case len(st.Unloadable) > 0:
		cls = "unloadable"
	case st.key() == oldState.key():
		cls = "old"
	case st.key() == newState.key():
		cls = "new"
	case len(st.repoDocs("repo")) == 0:
		cls = "missing"
	}
	desc := fmt.Sprintf("%s; Parallelism 4; kill before file-system operation %d of the indexer process (died=%t after %d operations, %d install renames done); completed=%t Finish=%v Add=%v -> directory is %s: %v files %v", sc.String(), k, proc.Dead, len(log), installed, completed, fe, ae, cls, st.repoDocs("repo"), lsDir(sut))
	var viol *hx.Violation
	if proc.Dead {
		res.Faults["kill"]++
	}
	switch {
	case completed && fe == nil && ae == nil && cls != "new":
		viol = &hx.Violation{Sig: "success-reported-but-new-index-not-installed|parallel|" + sc.kind, Detail: desc}
	case cls == "old" || cls == "new":
	case (cls == "mixed" || cls == "missing") && proc.Dead && installed > 0:
		viol = &hx.Violation{Sig: "mixed-install|kill-between-first-install-rename-and-end-of-cleanup|" + sc.kind, Detail: desc}
	default:
		viol = &hx.Violation{Sig: cls + "|kill-parallel|" + sc.kind, Detail: desc}
	}
	res.Violation = viol
	res.Nontrivial = res.Switches >= 2
	res.Sample = map[string]any{"scenario": desc, "steps": res.Steps, "switches": res.Switches}
	return res
}
