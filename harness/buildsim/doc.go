// Package buildsim holds the verification harnesses that drive index building,
// tombstones and merging through the simulated file system.
package buildsim
