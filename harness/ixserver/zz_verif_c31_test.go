package main

import (
	"fmt"
	"testing"

	"github.com/sourcegraph/zoekt/internal/verifsim/hx"
	"github.com/sourcegraph/zoekt/internal/verifsim/simrt"
)

// C31: index directory operations are mutually exclusive.

func init() { hx.Register("C31", "C31", runC31) }

func runC31(t *testing.T, tp *simrt.Tape, keepTrace bool) hx.Result {
	cfg := simrt.DrawConfig(tp)
	cfg.KeepTrace = keepTrace
	cfg.JumpPerMille = 0
	cfg.MaxSteps = 20000
	nTasks := tp.GenRange(2, 6)
	repos := []string{"a", "b", "c"}
	type op struct {
		global bool
		repo   string
		yields int
	}
	progs := make([][]op, nTasks)
	for i := range progs {
		n := tp.GenRange(1, 4)
		for j := 0; j < n; j++ {
			o := op{yields: tp.GenRange(0, 3)}
			if tp.Gen(4) == 0 {
				o.global = true
			} else {
				o.repo = repos[tp.Gen(len(repos))]
			}
			progs[i] = append(progs[i], o)
		}
	}
	var viol *hx.Violation
	setViol := func(sig, detail string) {
		if viol == nil {
			viol = &hx.Violation{Sig: sig, Detail: detail}
		}
	}
	running := map[string]int{} // repo -> number of f's inside
	inWith := map[string]int{}  // repo -> number of With calls in progress (call .. return)
	globalRunning := 0
	totalRunning := 0
	evals, sawOverlapAttempt := 0, false
	skipped, ran := 0, 0
	finished := false
	s, res := hx.Sim(t, tp, cfg, func() {
		var m indexMutex
		simrt.OnStep(func() error {
			evals++
			for r, n := range running {
				if n > 1 {
					setViol("two-operations-same-repo|with", fmt.Sprintf("%d operations for repository %q are running at once", n, r))
				}
			}
			if globalRunning > 1 {
				setViol("two-global-operations|global", fmt.Sprintf("%d global operations running at once", globalRunning))
			}
			if globalRunning > 0 && totalRunning > globalRunning {
				setViol("global-overlaps-other|global", fmt.Sprintf("a global operation runs while %d other operations run", totalRunning-globalRunning))
			}
			if viol != nil {
				return fmt.Errorf("violation")
			}
			return nil
		})
		done := make(chan int, nTasks)
		for i := 0; i < nTasks; i++ {
			i := i
			simrt.GoNamed(fmt.Sprintf("op%d", i), func() {
				defer func() {
					if r := recover(); r != nil {
						setViol("panic|task", fmt.Sprint(r))
					}
					simrt.Send(done, "c31done")(i)
				}()
				for _, o := range progs[i] {
					o := o
					if o.global {
						m.Global(func() {
							globalRunning++
							totalRunning++
							for k := 0; k < o.yields; k++ {
								simrt.Yield("c31-global-body")
							}
							globalRunning--
							totalRunning--
						})
						ran++
						continue
					}
					didRun := false
					busyAtSomePoint := false
					// "skipped because busy" is legitimate only if, at some point during our
					// call, another With call for this repository was in progress.
					if inWith[o.repo] > 0 {
						busyAtSomePoint = true
					}
					inWith[o.repo]++
					stop := watchRepo(o.repo, inWith, &busyAtSomePoint)
					ok := m.With(o.repo, func() {
						didRun = true
						running[o.repo]++
						totalRunning++
						for k := 0; k < o.yields; k++ {
							simrt.Yield("c31-repo-body")
						}
						running[o.repo]--
						totalRunning--
					})
					stop()
					inWith[o.repo]--
					if ok != didRun {
						if ok {
							setViol("reported-run-but-skipped|with", fmt.Sprintf("With(%q) returned true but f did not run", o.repo))
						} else {
							setViol("reported-skipped-but-ran|with", fmt.Sprintf("With(%q) returned false but f ran", o.repo))
						}
					}
					if !ok {
						skipped++
						sawOverlapAttempt = true
						if !busyAtSomePoint {
							setViol("skipped-while-idle|with", fmt.Sprintf("With(%q) skipped although no operation for that repository ran during the call", o.repo))
						}
					} else {
						ran++
					}
				}
			})
		}
		for i := 0; i < nTasks; i++ {
			simrt.Recv(done, "c31main")
		}
		finished = true
	})
	if s != nil && viol == nil && res.HarnessErr == "" {
		if s.Deadlocked() {
			viol = &hx.Violation{Sig: "deadlock|liveness", Detail: fmt.Sprint(s.BlockedSites())}
		} else if s.OverBudget() {
			res.HarnessErr = "step budget exceeded"
		} else if !finished && s.StopErr() == nil {
			res.HarnessErr = "main task did not finish"
		}
	}
	if skipped > 0 {
		if res.Probes == nil {
			res.Probes = map[string]int{}
		}
		res.Probes["with-skipped-busy"] += skipped
	}
	_ = sawOverlapAttempt
	res.Violation = viol
	res.Nontrivial = res.Switches >= 2 && evals > 0 && ran > 0
	res.Sample = map[string]any{"tasks": nTasks, "programs": fmt.Sprintf("%+v", progs), "ran": ran, "skipped": skipped, "steps": res.Steps, "switches": res.Switches, "policy": cfg.Policy}
	return res
}

// repoWatchers are evaluated at every quiescent step (registered once per run
// through the OnStep hook below).
type repoWatch struct {
	repo    string
	running map[string]int
	flag    *bool
	active  bool
}

func watchRepo(repo string, running map[string]int, flag *bool) func() {
	w := &repoWatch{repo: repo, running: running, flag: flag, active: true}
	simrt.OnStep(func() error {
		if w.active && w.running[w.repo] > 1 {
			*w.flag = true
		}
		return nil
	})
	return func() { w.active = false }
}
