package main

import (
	"context"
	"encoding/json"
	"fmt"
	"io"
	"log"
	"os"
	"path/filepath"
	"sort"
	"strings"
	"sync"
	"testing"
	"time"
	_ "time/tzdata"

	"github.com/sourcegraph/zoekt"
	"github.com/sourcegraph/zoekt/index"
	"github.com/sourcegraph/zoekt/internal/tenant/systemtenant"
	"github.com/sourcegraph/zoekt/internal/verifsim/hx"
	"github.com/sourcegraph/zoekt/internal/verifsim/simos"
	"github.com/sourcegraph/zoekt/internal/verifsim/simrt"
	"github.com/sourcegraph/zoekt/query"
)

// C32: cleanup never loses an assigned repository.
//
// One run = one generated index directory (simple shards, split repositories,
// compound shards with and without tombstones, a trash directory with fresh,
// old, boundary-age and future-dated entries, renamed repositories, temp files)
// and a history of cleanups with changing assigned sets and clock advances
// (all mtimes and "now" come from the run's own clock; nothing reads the wall
// clock). After every cleanup the four rules of the property are checked
// against the state before it. The fault sub-mode re-executes a cleanup with
// every one of its file-system operations failing, and as kill point.

func init() {
	hx.Register("C32", "C32", func(t *testing.T, tp *simrt.Tape, keep bool) hx.Result { return runC32(t, tp, false) })
	hx.Register("C32/faults", "C32", func(t *testing.T, tp *simrt.Tape, keep bool) hx.Result { return runC32(t, tp, true) })
}

var c32Scratch string
var c32Once sync.Once

func c32ScratchDir() string {
	c32Once.Do(func() {
		d, err := os.MkdirTemp("/dev/shm", "verif-c32-")
		if err != nil {
			d, err = os.MkdirTemp("", "verif-c32-")
			if err != nil {
				panic(err)
			}
		}
		c32Scratch = d
	})
	return c32Scratch
}

// ---- prepared shard images ---------------------------------------------------

type c32Image struct {
	files map[string][]byte // base name -> bytes (one or two shards)
	docs  []string          // "name=content" of the repository in this image
}

var c32Images = map[string]*c32Image{} // key: variant/id
var c32Compounds = map[string]map[string][]byte{}

func c32Name(id uint32) string { return fmt.Sprintf("r%d", id) }

func c32BuildImage(id uint32, name, tag string, nShards int) (*c32Image, error) {
	dir, err := os.MkdirTemp(c32ScratchDir(), "img-")
	if err != nil {
		return nil, err
	}
	defer os.RemoveAll(dir)
	o := index.Options{IndexDir: dir, ShardMax: 1 << 20, Parallelism: 1, DisableCTags: true, SizeMax: 1 << 20, TrigramMax: 20000,
		RepositoryDescription: zoekt.Repository{ID: id, Name: name, Branches: []zoekt.RepositoryBranch{{Name: "HEAD", Version: "v-" + tag}}}}
	docs := []index.Document{{Name: "a.txt", Content: []byte(fmt.Sprintf("needle %s %s one\n", name, tag)), Branches: []string{"HEAD"}}}
	if nShards == 2 {
		o.ShardMax = 60
		docs = []index.Document{
			{Name: "a.txt", Content: []byte(fmt.Sprintf("needle %s %s first document with padding to fill a shard\n", name, tag)), Branches: []string{"HEAD"}},
			{Name: "b.txt", Content: []byte(fmt.Sprintf("needle %s %s second document with padding to fill a shard\n", name, tag)), Branches: []string{"HEAD"}},
		}
	}
	b, err := index.NewBuilder(o)
	if err != nil {
		return nil, err
	}
	img := &c32Image{files: map[string][]byte{}}
	for _, d := range docs {
		if err := b.Add(d); err != nil {
			return nil, err
		}
		img.docs = append(img.docs, fmt.Sprintf("%s=%q", d.Name, d.Content))
	}
	if err := b.Finish(); err != nil {
		return nil, err
	}
	sort.Strings(img.docs)
	fs, _ := filepath.Glob(filepath.Join(dir, "*.zoekt"))
	if len(fs) != nShards {
		return nil, fmt.Errorf("image %s/%s: wanted %d shards, got %d", name, tag, nShards, len(fs))
	}
	for _, f := range fs {
		bs, err := os.ReadFile(f)
		if err != nil {
			return nil, err
		}
		img.files[filepath.Base(f)] = bs
	}
	return img, nil
}

type c32Cached struct {
	Files map[string][]byte
	Docs  []string
}

// c32DiskCache shares prepared shard images between worker processes (building
// one costs ~0.5 s of memclr/GC in the real ShardBuilder; a run needs ~1 ms).
// build is called by exactly one process per key; the others wait for its file.
func c32DiskCache(key string, build func() (*c32Cached, error)) (*c32Cached, error) {
	dir := os.Getenv("VERIF_IMGCACHE")
	if dir == "" {
		return build()
	}
	dir = filepath.Join(dir, "c32")
	os.MkdirAll(dir, 0o755)
	fn := filepath.Join(dir, strings.NewReplacer("/", "_", " ", "_", "[", "", "]", "").Replace(key)+".json")
	load := func() *c32Cached {
		bs, err := os.ReadFile(fn)
		if err != nil {
			return nil
		}
		var c c32Cached
		if json.Unmarshal(bs, &c) != nil {
			return nil
		}
		return &c
	}
	if c := load(); c != nil {
		return c, nil
	}
	lock, err := os.OpenFile(fn+".lock", os.O_CREATE|os.O_EXCL|os.O_WRONLY, 0o644)
	if err != nil {
		// somebody else is building it
		for i := 0; i < 3000; i++ {
			time.Sleep(20 * time.Millisecond)
			if c := load(); c != nil {
				return c, nil
			}
		}
		return build()
	}
	lock.Close()
	c, err := build()
	if err != nil {
		os.Remove(fn + ".lock")
		return nil, err
	}
	bs, _ := json.Marshal(c)
	tmp := fmt.Sprintf("%s.%d.tmp", fn, os.Getpid())
	if os.WriteFile(tmp, bs, 0o644) == nil {
		os.Rename(tmp, fn)
	}
	return c, nil
}

func c32GetImage(variant string, id uint32) (*c32Image, error) {
	key := fmt.Sprintf("%s/%d", variant, id)
	if img, ok := c32Images[key]; ok {
		return img, nil
	}
	c, err := c32DiskCache("img-"+key, func() (*c32Cached, error) {
		img, err := c32BuildVariant(variant, id)
		if err != nil {
			return nil, err
		}
		return &c32Cached{Files: img.files, Docs: img.docs}, nil
	})
	if err != nil {
		return nil, err
	}
	img := &c32Image{files: c.Files, docs: c.Docs}
	c32Images[key] = img
	return img, nil
}

func c32BuildVariant(variant string, id uint32) (*c32Image, error) {
	var img *c32Image
	var err error
	switch variant {
	case "simple1":
		img, err = c32BuildImage(id, c32Name(id), "idx", 1)
	case "simple2":
		img, err = c32BuildImage(id, c32Name(id), "idx2", 2)
	case "trash1":
		img, err = c32BuildImage(id, c32Name(id), "trashed", 1)
	case "trash2":
		img, err = c32BuildImage(id, c32Name(id), "trashed2", 2)
	case "renamed":
		img, err = c32BuildImage(id, c32Name(id)+"new", "renamed", 1)
	default:
		err = fmt.Errorf("unknown variant %s", variant)
	}
	return img, err
}

// c32Compound returns the files of a compound shard holding the simple1 images of ids.
func c32Compound(ids []uint32) (map[string][]byte, error) {
	key := fmt.Sprint(ids)
	if c, ok := c32Compounds[key]; ok {
		return c, nil
	}
	c, err := c32DiskCache("cmp-"+key, func() (*c32Cached, error) {
		files, err := c32BuildCompound(ids)
		return &c32Cached{Files: files}, err
	})
	if err != nil {
		return nil, err
	}
	c32Compounds[key] = c.Files
	return c.Files, nil
}

func c32BuildCompound(ids []uint32) (map[string][]byte, error) {
	dir, err := os.MkdirTemp(c32ScratchDir(), "cmp-")
	if err != nil {
		return nil, err
	}
	defer os.RemoveAll(dir)
	var files []index.IndexFile
	for _, id := range ids {
		img, err := c32GetImage("simple1", id)
		if err != nil {
			return nil, err
		}
		for n, bs := range img.files {
			p := filepath.Join(dir, "in-"+n)
			if err := os.WriteFile(p, bs, 0o644); err != nil {
				return nil, err
			}
			f, err := os.Open(p)
			if err != nil {
				return nil, err
			}
			ifile, err := index.NewIndexFile(simos.Wrap(f))
			if err != nil {
				return nil, err
			}
			defer ifile.Close()
			files = append(files, ifile)
		}
	}
	out := filepath.Join(dir, "out")
	os.MkdirAll(out, 0o755)
	tmpName, dstName, err := index.Merge(out, files...)
	if err != nil {
		return nil, err
	}
	if err := os.Rename(tmpName, dstName); err != nil {
		return nil, err
	}
	res := map[string][]byte{}
	es, _ := os.ReadDir(out)
	for _, e := range es {
		bs, err := os.ReadFile(filepath.Join(out, e.Name()))
		if err != nil {
			return nil, err
		}
		res[e.Name()] = bs
	}
	return res, nil
}

// ---- observation ---------------------------------------------------------------

type c32Entry struct {
	path  string
	id    uint32
	name  string
	tomb  bool
	mtime time.Time
}

type c32State struct {
	index     []c32Entry          // every repository of every *.zoekt in the index dir (tombstoned ones included)
	trash     []c32Entry          // same for .trash
	docs      map[uint32][]string // searchable documents per repository id (index dir)
	trashDocs map[uint32][]string // documents of the copies in the trash
	broken    []string            // *.zoekt files in the index dir that do not load
	listing   []string            // all file names (index dir and trash)
}

func c32ReadDir(dir string) (out []c32Entry, broken []string) {
	fs, _ := filepath.Glob(filepath.Join(dir, "*.zoekt"))
	sort.Strings(fs)
	for _, f := range fs {
		st, err := os.Stat(f)
		if err != nil {
			continue
		}
		repos, _, err := index.ReadMetadataPath(f)
		if err != nil {
			broken = append(broken, filepath.Base(f)+": "+err.Error())
			continue
		}
		for _, r := range repos {
			out = append(out, c32Entry{path: f, id: r.ID, name: r.Name, tomb: r.Tombstone, mtime: st.ModTime()})
		}
	}
	return
}

func c32Docs(dir string) (map[uint32][]string, []string) {
	docs := map[uint32][]string{}
	var broken []string
	fs, _ := filepath.Glob(filepath.Join(dir, "*.zoekt"))
	sort.Strings(fs)
	for _, fn := range fs {
		f, err := os.Open(fn)
		if err != nil {
			broken = append(broken, filepath.Base(fn)+": "+err.Error())
			continue
		}
		ifile, err := index.NewIndexFile(simos.Wrap(f))
		if err != nil {
			broken = append(broken, filepath.Base(fn)+": "+err.Error())
			continue
		}
		s, err := func() (s zoekt.Searcher, err error) {
			defer func() {
				if r := recover(); r != nil {
					err = fmt.Errorf("panic: %v", r)
				}
			}()
			return index.NewSearcher(ifile)
		}()
		if err != nil {
			ifile.Close()
			broken = append(broken, filepath.Base(fn)+": "+err.Error())
			continue
		}
		res, err := s.Search(systemtenant.WithUnsafeContext(context.Background()), &query.Const{Value: true}, &zoekt.SearchOptions{Whole: true})
		if err != nil {
			broken = append(broken, filepath.Base(fn)+": search: "+err.Error())
		} else {
			for _, fm := range res.Files {
				docs[fm.RepositoryID] = append(docs[fm.RepositoryID], fmt.Sprintf("%s=%q", fm.FileName, fm.Content))
			}
		}
		s.Close()
	}
	for _, d := range docs {
		sort.Strings(d)
	}
	return docs, broken
}

func c32Observe(indexDir string) c32State {
	var st c32State
	st.index, st.broken = c32ReadDir(indexDir)
	st.trash, _ = c32ReadDir(filepath.Join(indexDir, ".trash"))
	var b2 []string
	st.docs, b2 = c32Docs(indexDir)
	st.broken = append(st.broken, b2...)
	st.trashDocs, _ = c32Docs(filepath.Join(indexDir, ".trash"))
	for _, d := range []string{indexDir, filepath.Join(indexDir, ".trash")} {
		es, _ := os.ReadDir(d)
		for _, e := range es {
			if !e.IsDir() {
				rel := e.Name()
				if d != indexDir {
					rel = ".trash/" + rel
				}
				st.listing = append(st.listing, rel)
			}
		}
	}
	sort.Strings(st.listing)
	return st
}

func (s c32State) live(id uint32) (out []c32Entry) {
	for _, e := range s.index {
		if e.id == id && !e.tomb {
			out = append(out, e)
		}
	}
	return
}

func (s c32State) tombstoned(id uint32) bool {
	for _, e := range s.index {
		if e.id == id && e.tomb {
			return true
		}
	}
	return false
}

func (s c32State) trashed(id uint32) (out []c32Entry) {
	for _, e := range s.trash {
		if e.id == id && !e.tomb {
			out = append(out, e)
		}
	}
	return
}

func c32Consistent(es []c32Entry) bool {
	for _, e := range es {
		if e.name != es[0].name {
			return false
		}
	}
	return true
}

func c32Put(dir string, files map[string][]byte, mtime time.Time) error {
	for n, bs := range files {
		p := filepath.Join(dir, n)
		if err := os.WriteFile(p, bs, 0o644); err != nil {
			return err
		}
		if err := os.Chtimes(p, mtime, mtime); err != nil {
			return err
		}
	}
	return nil
}

var c32SeqMu sync.Mutex

// c32WithProc runs f as simulated process p (sequential harness: no scheduler)
// and reports whether it ran to completion.
func c32WithProc(p *simrt.Proc, f func()) (completed bool) {
	c32SeqMu.Lock()
	defer c32SeqMu.Unlock()
	simos.SetSeqProc(p)
	defer simos.SetSeqProc(nil)
	done := make(chan struct{})
	go func() {
		defer close(done)
		f()
		completed = true
	}()
	<-done
	return completed
}

func c32CopyTree(src, dst string) {
	os.MkdirAll(dst, 0o755)
	es, _ := os.ReadDir(src)
	for _, e := range es {
		if e.IsDir() {
			c32CopyTree(filepath.Join(src, e.Name()), filepath.Join(dst, e.Name()))
			continue
		}
		p := filepath.Join(src, e.Name())
		bs, err := os.ReadFile(p)
		if err != nil {
			panic(err)
		}
		st, _ := os.Stat(p)
		q := filepath.Join(dst, e.Name())
		if err := os.WriteFile(q, bs, 0o644); err != nil {
			panic(err)
		}
		os.Chtimes(q, st.ModTime(), st.ModTime())
	}
}

// ---- the rules -------------------------------------------------------------------

type c32Reporter func(sig, detail string)

// c32Rules checks the state after a cleanup against the state before it.
// faulty: the cleanup met an injected I/O error or was killed; then only the
// rule that assigned, indexed repositories are never lost is required.
func c32Rules(before, after c32State, assigned map[uint32]bool, ids []uint32, now time.Time, merging bool, faultClass string, ctx string, report c32Reporter) {
	mode := "merging-off"
	if merging {
		mode = "merging-on"
	}
	faulty := faultClass != ""
	if faulty {
		mode += "|" + faultClass
		// did a whole compound shard disappear?
		afterFiles := map[string]bool{}
		for _, n := range after.listing {
			afterFiles[n] = true
		}
		for _, n := range before.listing {
			if strings.HasPrefix(n, "compound-") && strings.HasSuffix(n, ".zoekt") && !afterFiles[n] {
				mode += "|compound-shard-removed"
				break
			}
		}
	}
	minAge := now.Add(-24 * time.Hour)
	if len(after.broken) > 0 && len(before.broken) == 0 {
		report("unloadable-shard-after-cleanup|"+mode, fmt.Sprintf("%s: %v", ctx, after.broken))
	}
	for _, id := range ids {
		liveB, liveA := before.live(id), after.live(id)
		trashB := before.trashed(id)
		old := false
		for _, e := range trashB {
			if e.mtime.Before(minAge) {
				old = true
			}
		}
		if assigned[id] {
			// rule 1: an assigned repository that is indexed stays exactly as it is
			if len(liveB) > 0 && c32Consistent(liveB) {
				if fmt.Sprint(after.docs[id]) != fmt.Sprint(before.docs[id]) {
					kind := "assigned-repository-changed"
					if len(after.docs[id]) == 0 || strings.Contains(mode, "compound-shard-removed") {
						// one root cause, one signature: a removed compound shard takes the
						// repository's documents (or one of its copies) with it
						kind = "assigned-repository-lost"
					}
					report(kind+"|"+mode, fmt.Sprintf("%s: assigned repository %d was searchable as %v before the cleanup and is %v after it; index entries before %v, after %v", ctx, id, before.docs[id], after.docs[id], c32Brief(liveB), c32Brief(liveA)))
				}
				continue
			}
			if faulty {
				continue
			}
			// rule 2: an assigned repository found (only) in the trash, not older than 24h, is restored
			if len(liveB) == 0 && len(trashB) > 0 && !old {
				if fmt.Sprint(after.docs[id]) != fmt.Sprint(before.trashDocs[id]) {
					report("assigned-repository-not-restored-from-trash|"+mode, fmt.Sprintf("%s: assigned repository %d was in the trash (%v, newest allowed age 24h, now %s) with documents %v; after the cleanup the index has %v for it", ctx, id, c32Brief(trashB), now.Format(time.RFC3339), before.trashDocs[id], after.docs[id]))
				}
			}
			continue
		}
		// rule 3: an unassigned repository is not searchable afterwards; it went to the trash or was tombstoned
		if len(after.docs[id]) > 0 && !faulty {
			report("unassigned-repository-still-searchable|"+mode, fmt.Sprintf("%s: repository %d is not assigned but still searchable after the cleanup: %v (index entries %v)", ctx, id, after.docs[id], c32Brief(liveA)))
		}
		if len(liveB) > 0 && c32Consistent(liveB) && !faulty {
			if len(after.trashed(id)) == 0 && !after.tombstoned(id) && len(after.docs[id]) == 0 {
				report("unassigned-repository-deleted-instead-of-trashed|"+mode, fmt.Sprintf("%s: repository %d is not assigned; it was indexed in %v and after the cleanup it is neither in the trash nor tombstoned in a compound shard (it was deleted outright)", ctx, id, c32Brief(liveB)))
			}
		}
	}
	// rule 4: a trash entry disappears only if it is older than 24h, conflicts with an indexed copy, or was restored
	if !faulty {
		afterTrash := map[string]bool{}
		for _, e := range after.trash {
			afterTrash[fmt.Sprintf("%s#%d", filepath.Base(e.path), e.id)] = true
		}
		inIndexAfter := map[string]bool{}
		for _, e := range after.index {
			inIndexAfter[fmt.Sprintf("%s#%d", filepath.Base(e.path), e.id)] = true
		}
		for _, e := range before.trash {
			k := fmt.Sprintf("%s#%d", filepath.Base(e.path), e.id)
			if afterTrash[k] {
				continue
			}
			old := false
			for _, t := range before.trashed(e.id) {
				if t.mtime.Before(minAge) {
					old = true
				}
			}
			conflict := len(before.live(e.id)) > 0
			restored := assigned[e.id] && inIndexAfter[k]
			if !old && !conflict && !restored {
				report("trash-entry-deleted-early|"+mode, fmt.Sprintf("%s: trashed shard %s of repository %d (mtime %s, now %s) disappeared from the trash although it is not older than 24 hours, does not conflict with an indexed copy and was not restored (assigned=%t)", ctx, filepath.Base(e.path), e.id, e.mtime.Format(time.RFC3339), now.Format(time.RFC3339), assigned[e.id]))
			}
		}
	}
}

func c32Brief(es []c32Entry) []string {
	var out []string
	for _, e := range es {
		t := ""
		if e.tomb {
			t = "(tombstoned)"
		}
		out = append(out, fmt.Sprintf("%s:%s%s", filepath.Base(e.path), e.name, t))
	}
	return out
}

// ---- the run ---------------------------------------------------------------------

func runC32(t *testing.T, tp *simrt.Tape, faults bool) hx.Result {
	debugLog = log.New(io.Discard, "", 0)
	infoLog = log.New(io.Discard, "", 0)
	errorLog = log.New(io.Discard, "", 0)
	base, err := os.MkdirTemp(c32ScratchDir(), "run-")
	if err != nil {
		return hx.Result{HarnessErr: err.Error()}
	}
	defer os.RemoveAll(base)
	var res hx.Result
	res.Faults, res.Offered, res.Probes = map[string]int{}, map[string]int{}, map[string]int{}
	seen := map[string]bool{}
	report := func(sig, detail string) {
		if !seen[sig] {
			seen[sig] = true
			res.Violations = append(res.Violations, hx.Violation{Sig: sig, Detail: detail})
		}
	}
	indexDir := filepath.Join(base, "index")
	trashDir := filepath.Join(indexDir, ".trash")
	os.MkdirAll(trashDir, 0o755)
	// "older than 24 hours" is a duration: the day after the clocks went forward a
	// calendar day is only 23 hours long in local time
	now := time.Date(2024, 3, 1, 12, 0, 0, 0, time.UTC)
	switch tp.Gen(6) {
	case 0:
		if loc, err := time.LoadLocation("Europe/Berlin"); err == nil {
			now = time.Date(2024, 3, 31, 12, 0, 0, 0, loc)
		}
	case 1:
		if loc, err := time.LoadLocation("America/New_York"); err == nil {
			now = time.Date(2025, 3, 9, 12, 0, 0, 0, loc)
		}
	case 2:
		if loc, err := time.LoadLocation("Australia/Sydney"); err == nil {
			now = time.Date(2024, 4, 7, 12, 0, 0, 0, loc) // clocks went back: a 25-hour day
		}
	}
	merging := tp.Gen(2) == 0
	nRepos := tp.GenRange(3, 6)
	var ids []uint32
	for i := 0; i < nRepos; i++ {
		ids = append(ids, uint32(i+1))
	}
	ages := func() time.Duration {
		switch tp.Gen(7) {
		case 0:
			return time.Minute
		case 1:
			return 23*time.Hour + 59*time.Minute
		case 2:
			return 24 * time.Hour // exactly 24h: not older than 24h
		case 3:
			return 24*time.Hour + time.Second
		case 4:
			return 25 * time.Hour
		case 5:
			return 100 * time.Hour
		default:
			return -3 * time.Hour // timestamp in the future
		}
	}
	var layout []string
	var comp [2][]uint32
	var compTomb [2][]uint32
	put := func(dir, variant string, id uint32, mt time.Time) bool {
		img, err := c32GetImage(variant, id)
		if err != nil {
			res.HarnessErr = "image: " + err.Error()
			return false
		}
		if err := c32Put(dir, img.files, mt); err != nil {
			res.HarnessErr = err.Error()
			return false
		}
		return true
	}
	for _, id := range ids {
		idxAge := time.Duration(tp.GenRange(1, 200)) * time.Hour
		place := tp.Gen(17)
		desc := ""
		ok := true
		switch place {
		case 0:
			desc = "absent"
		case 1, 2:
			desc = "index:simple"
			ok = put(indexDir, "simple1", id, now.Add(-idxAge))
		case 3:
			desc = "index:split"
			ok = put(indexDir, "simple2", id, now.Add(-idxAge))
		case 4, 5:
			c := tp.Gen(2)
			comp[c] = append(comp[c], id)
			desc = fmt.Sprintf("index:compound%d", c)
		case 6:
			c := tp.Gen(2)
			comp[c] = append(comp[c], id)
			compTomb[c] = append(compTomb[c], id)
			desc = fmt.Sprintf("index:compound%d(tombstoned)", c)
		case 7, 8:
			a := ages()
			desc = fmt.Sprintf("trash(age %s)", a)
			ok = put(trashDir, "trash1", id, now.Add(-a))
		case 9:
			a1, a2 := ages(), ages()
			desc = fmt.Sprintf("trash:split(ages %s,%s)", a1, a2)
			img, err := c32GetImage("trash2", id)
			if err != nil {
				return hx.Result{HarnessErr: err.Error()}
			}
			i := 0
			var names []string
			for n := range img.files {
				names = append(names, n)
			}
			sort.Strings(names)
			for _, n := range names {
				a := a1
				if i == 1 {
					a = a2
				}
				i++
				if err := c32Put(trashDir, map[string][]byte{n: img.files[n]}, now.Add(-a)); err != nil {
					return hx.Result{HarnessErr: err.Error()}
				}
			}
		case 10:
			a := ages()
			desc = fmt.Sprintf("index:simple+trash(age %s)", a)
			ok = put(indexDir, "simple1", id, now.Add(-idxAge)) && put(trashDir, "trash1", id, now.Add(-a))
		case 11:
			desc = "index:simple+index:renamed"
			ok = put(indexDir, "simple1", id, now.Add(-idxAge)) && put(indexDir, "renamed", id, now.Add(-idxAge))
		case 12:
			c := tp.Gen(2)
			comp[c] = append(comp[c], id)
			compTomb[c] = append(compTomb[c], id)
			a := ages()
			desc = fmt.Sprintf("index:compound%d(tombstoned)+trash(age %s)", c, a)
			ok = put(trashDir, "trash1", id, now.Add(-a))
		case 13:
			c := tp.Gen(2)
			comp[c] = append(comp[c], id)
			desc = fmt.Sprintf("index:compound%d+index:renamed", c)
			ok = put(indexDir, "renamed", id, now.Add(-idxAge))
		case 14:
			c := tp.Gen(2)
			comp[c] = append(comp[c], id)
			compTomb[c] = append(compTomb[c], id)
			desc = fmt.Sprintf("index:compound%d(tombstoned)+index:simple", c)
			ok = put(indexDir, "simple1", id, now.Add(-idxAge))
		case 16:
			// alive in both compound shards at once (e.g. after an interrupted merge)
			comp[0] = append(comp[0], id)
			comp[1] = append(comp[1], id)
			desc = "index:compound0+index:compound1"
		case 15:
			if tp.Gen(2) == 0 {
				c := tp.Gen(2)
				comp[c] = append(comp[c], id)
				desc = fmt.Sprintf("index:compound%d+index:simple", c)
			} else {
				desc = "index:simple"
			}
			ok = put(indexDir, "simple1", id, now.Add(-idxAge))
		default:
			desc = "index:simple"
			ok = put(indexDir, "simple1", id, now.Add(-idxAge))
		}
		if !ok {
			return res
		}
		layout = append(layout, fmt.Sprintf("%d=%s", id, desc))
	}
	for c := 0; c < 2; c++ {
		if len(comp[c]) == 0 {
			continue
		}
		files, err := c32Compound(comp[c])
		if err != nil {
			return hx.Result{HarnessErr: "compound: " + err.Error()}
		}
		if err := c32Put(indexDir, files, now.Add(-time.Duration(tp.GenRange(1, 200))*time.Hour)); err != nil {
			return hx.Result{HarnessErr: err.Error()}
		}
		for n := range files {
			if strings.HasSuffix(n, ".zoekt") {
				for _, id := range compTomb[c] {
					if err := index.SetTombstone(filepath.Join(indexDir, n), id); err != nil {
						return hx.Result{HarnessErr: "set tombstone: " + err.Error()}
					}
				}
			}
		}
	}
	if tp.Gen(3) == 0 {
		os.WriteFile(filepath.Join(indexDir, "r9_v16.00000.zoekt.123.tmp"), []byte("partial"), 0o644)
		layout = append(layout, "tmpfile")
	}
	assigned := map[uint32]bool{}
	for _, id := range ids {
		if tp.Gen(2) == 0 {
			assigned[id] = true
		}
	}
	if tp.Gen(4) == 0 {
		assigned[77] = true // an assigned repository that is nowhere on disk
	}
	pristine := c32Observe(indexDir)
	if len(pristine.broken) > 0 {
		return hx.Result{HarnessErr: fmt.Sprintf("generated directory has unloadable shards: %v", pristine.broken)}
	}
	nSteps := tp.GenRange(1, 4)
	if faults {
		nSteps = tp.GenRange(1, 2)
	}
	var history []string
	history = append(history, fmt.Sprintf("layout %v merging=%t", layout, merging))
	for step := 0; step < nSteps; step++ {
		if step > 0 {
			// between cleanups: time passes, the assignment changes, an indexer adds a repository
			adv := []time.Duration{0, time.Hour, 5 * time.Hour, 23 * time.Hour, 25 * time.Hour, 30 * time.Hour}[tp.Gen(6)]
			now = now.Add(adv)
			n := tp.GenRange(0, 2)
			var flips []uint32
			for i := 0; i < n; i++ {
				id := ids[tp.Gen(len(ids))]
				assigned[id] = !assigned[id]
				if !assigned[id] {
					delete(assigned, id)
				}
				flips = append(flips, id)
			}
			indexed := uint32(0)
			if tp.Gen(3) == 0 {
				id := ids[tp.Gen(len(ids))]
				st := c32Observe(indexDir)
				if assigned[id] && len(st.live(id)) == 0 {
					img, _ := c32GetImage("simple1", id)
					c32Put(indexDir, img.files, now)
					indexed = id
				}
			}
			history = append(history, fmt.Sprintf("advance %s, flip %v, indexer adds %d", adv, flips, indexed))
		}
		var asg []uint32
		for id := range assigned {
			asg = append(asg, id)
		}
		sort.Slice(asg, func(i, j int) bool { return asg[i] < asg[j] })
		history = append(history, fmt.Sprintf("cleanup(assigned=%v, now=%s)", asg, now.Format("02T15:04:05")))
		ctx := strings.Join(history, "; ")
		before := c32Observe(indexDir)
		if !faults {
			p0 := simos.NewProc("cleanup", simos.Plan{})
			c32WithProc(p0, func() { cleanup(indexDir, asg, now, merging) })
			after := c32Observe(indexDir)
			res.Evals++
			c32Rules(before, after, assigned, ids, now, merging, "", ctx, report)
			for _, n := range after.listing {
				if strings.HasSuffix(n, ".tmp") && !strings.HasPrefix(n, ".trash/") {
					res.Probes["tmp-file-left"]++
				}
			}
			// a second cleanup with the same input must keep satisfying the rules
			if tp.Gen(4) == 0 {
				c32WithProc(simos.NewProc("cleanup", simos.Plan{}), func() { cleanup(indexDir, asg, now, merging) })
				again := c32Observe(indexDir)
				res.Evals++
				c32Rules(after, again, assigned, ids, now, merging, "", ctx+"; same cleanup again", report)
				if fmt.Sprint(again.listing) != fmt.Sprint(after.listing) {
					res.Probes["second-cleanup-changed-directory"]++
				}
			}
			res.Distinct = append(res.Distinct, c32Hash(ctx))
			continue
		}
		// fault sub-mode: record the cleanup on a copy, then every operation as failure and as kill point
		ref := filepath.Join(base, fmt.Sprintf("ref%d", step))
		c32CopyTree(indexDir, ref)
		p0 := simos.NewProc("cleanup", simos.Plan{})
		c32WithProc(p0, func() { cleanup(ref, asg, now, merging) })
		ops := simos.StateOf(p0).Log
		res.Evals++
		refAfter := c32Observe(ref)
		c32Rules(before, refAfter, assigned, ids, now, merging, "", ctx, report)
		for _, op := range ops {
			for _, kind := range []string{"fail", "kill"} {
				if kind == "kill" && !op.Mut {
					continue
				}
				d := filepath.Join(base, "f")
				os.RemoveAll(d)
				c32CopyTree(indexDir, d)
				plan := simos.Plan{FailAt: op.K}
				if kind == "kill" {
					plan = simos.Plan{CrashAt: op.K}
				}
				res.Offered[kind+"-"+op.Name]++
				p := simos.NewProc("cleanup", plan)
				completed := c32WithProc(p, func() { cleanup(d, asg, now, merging) })
				for k, v := range simos.StateOf(p).Fired {
					res.Faults[k] += v
				}
				if kind == "kill" && completed {
					continue
				}
				after := c32Observe(d)
				res.Evals++
				fctx := fmt.Sprintf("%s; %s at op %d (%s %s)", ctx, kind, op.K, op.Name, strings.TrimPrefix(op.Path, ref+"/"))
				target := "other"
				switch bn := filepath.Base(op.Path); {
				case op.Path == ref || op.Path == filepath.Join(ref, ".trash"):
					target = "dir"
				case strings.HasPrefix(bn, "compound-"):
					target = "compound-shard-file"
				case strings.Contains(bn, ".zoekt"):
					target = "shard-file"
				}
				fclass := kind + "-" + target // the operation name is in the detail; the class is the root cause
				c32Rules(before, after, assigned, ids, now, merging, fclass, fctx, report)
				// the next fault-free cleanup must bring the directory back under the rules
				c32WithProc(simos.NewProc("cleanup", simos.Plan{}), func() { cleanup(d, asg, now, merging) })
				healed := c32Observe(d)
				res.Evals++
				{
					healedFiles := map[string]bool{}
					for _, n := range healed.listing {
						healedFiles[n] = true
					}
					for _, n := range before.listing {
						if strings.HasPrefix(n, "compound-") && strings.HasSuffix(n, ".zoekt") && !healedFiles[n] {
							fclass += "|compound-shard-removed"
							break
						}
					}
				}
				for _, id := range ids {
					if !assigned[id] && len(healed.docs[id]) > 0 {
						report("unassigned-repository-still-searchable|after-recovery-cleanup|"+fclass, fmt.Sprintf("%s; then a fault-free cleanup: repository %d still searchable: %v", fctx, id, healed.docs[id]))
					}
					if assigned[id] && len(before.live(id)) > 0 && c32Consistent(before.live(id)) && fmt.Sprint(healed.docs[id]) != fmt.Sprint(before.docs[id]) {
						kind := "assigned-repository-changed"
						if len(healed.docs[id]) == 0 || strings.Contains(fclass, "compound-shard-removed") {
							kind = "assigned-repository-lost"
						}
						report(kind+"|after-recovery-cleanup|"+fclass, fmt.Sprintf("%s; then a fault-free cleanup: assigned repository %d was %v, now %v", fctx, id, before.docs[id], healed.docs[id]))
					}
				}
				res.Distinct = append(res.Distinct, c32Hash(fctx))
			}
		}
		// continue the history from the fault-free result
		os.RemoveAll(indexDir)
		os.Rename(ref, indexDir)
	}
	res.Sample = map[string]any{"history": history}
	res.Nontrivial = true
	res.Hash = c32Hash(strings.Join(history, ";"))
	return res
}

func c32Hash(s string) uint64 {
	h := uint64(0xcbf29ce484222325)
	for i := 0; i < len(s); i++ {
		h ^= uint64(s[i])
		h *= 0x100000001b3
	}
	return h
}
