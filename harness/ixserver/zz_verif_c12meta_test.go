package main

import (
	"fmt"
	"io"
	"log"
	"os"
	"regexp"
	"path/filepath"
	"sort"
	"strings"
	"testing"

	"github.com/sourcegraph/zoekt"
	"github.com/sourcegraph/zoekt/index"
	"github.com/sourcegraph/zoekt/internal/verifsim/hx"
	"github.com/sourcegraph/zoekt/internal/verifsim/simos"
	"github.com/sourcegraph/zoekt/internal/verifsim/simrt"
)

// C12/meta: the metadata-only update of an indexed repository (mergeMeta, used
// by the indexserver when only mutable metadata changed) under kill and I/O
// error at every one of its file-system operations. One run = one repository
// in 1-2 simple shards or as a member of a compound shard, and a new
// description that differs in URL and RawConfig only.
//
// After every execution: the documents are untouched, every shard still loads,
// and the repository's metadata is the old one in every shard or the new one in
// every shard; a call that returned nil has installed the new metadata
// everywhere. The narrow class "kill or failed rename strictly between the first
// and the last sidecar rename" is the multi-file install window already
// recorded for C12.

func init() { hx.Register("C12/meta", "C12", runC12Meta) }

func c12MetaState(dir string, id uint32) (urls []string, docs []string, broken []string) {
	fs, _ := filepath.Glob(filepath.Join(dir, "*.zoekt"))
	sort.Strings(fs)
	for _, f := range fs {
		repos, _, err := index.ReadMetadataPath(f)
		if err != nil {
			broken = append(broken, filepath.Base(f)+": "+err.Error())
			continue
		}
		for _, r := range repos {
			if r.ID == id {
				urls = append(urls, fmt.Sprintf("%s|%s", r.URL, r.RawConfig["priority"]))
			}
		}
	}
	d, b2 := c32Docs(dir)
	broken = append(broken, b2...)
	for rid, ds := range d {
		for _, x := range ds {
			docs = append(docs, fmt.Sprintf("%d:%s", rid, x))
		}
	}
	sort.Strings(docs)
	return
}

func runC12Meta(t *testing.T, tp *simrt.Tape, keepTrace bool) hx.Result {
	debugLogOff()
	base, err := os.MkdirTemp(c32ScratchDir(), "c12m-")
	if err != nil {
		return hx.Result{HarnessErr: err.Error()}
	}
	defer os.RemoveAll(base)
	var res hx.Result
	res.Faults, res.Offered = map[string]int{}, map[string]int{}
	seen := map[string]bool{}
	report := func(sig, detail string) {
		if !seen[sig] {
			seen[sig] = true
			res.Violations = append(res.Violations, hx.Violation{Sig: sig, Detail: detail})
		}
	}
	start := filepath.Join(base, "start")
	os.MkdirAll(start, 0o755)
	id := uint32(1 + tp.Gen(3))
	layout := []string{"simple1", "simple2", "compound"}[tp.Gen(3)]
	switch layout {
	case "compound":
		others := []uint32{4, 5}[:1+tp.Gen(2)]
		ids := append([]uint32{id}, others...)
		sort.Slice(ids, func(i, j int) bool { return ids[i] < ids[j] })
		files, err := c32Compound(ids)
		if err != nil {
			return hx.Result{HarnessErr: err.Error()}
		}
		for n, b := range files {
			os.WriteFile(filepath.Join(start, n), b, 0o644)
		}
	default:
		img, err := c32GetImage(layout, id)
		if err != nil {
			return hx.Result{HarnessErr: err.Error()}
		}
		for n, b := range img.files {
			os.WriteFile(filepath.Join(start, n), b, 0o644)
		}
	}
	if tp.Gen(3) == 0 {
		// an earlier metadata update already left sidecars
		o := &index.Options{IndexDir: start, RepositoryDescription: zoekt.Repository{ID: id, Name: c32Name(id), URL: "http://earlier.example/" + c32Name(id), Branches: []zoekt.RepositoryBranch{{Name: "HEAD", Version: c12MetaVersion(layout)}}}}
		o.ShardMerging = layout == "compound"
		if err := mergeMeta(o); err != nil {
			return hx.Result{HarnessErr: "earlier mergeMeta: " + err.Error()}
		}
	}
	newURL := "http://new.example/" + c32Name(id)
	opts := func(dir string) *index.Options {
		o := &index.Options{IndexDir: dir, RepositoryDescription: zoekt.Repository{ID: id, Name: c32Name(id), URL: newURL, RawConfig: map[string]string{"priority": "9"},
			Branches: []zoekt.RepositoryBranch{{Name: "HEAD", Version: c12MetaVersion(layout)}}}}
		o.ShardMerging = layout == "compound"
		return o
	}
	oldURLs, oldDocs, broken := c12MetaState(start, id)
	if len(broken) > 0 || len(oldURLs) == 0 {
		return hx.Result{HarnessErr: fmt.Sprintf("start state: urls %v broken %v", oldURLs, broken)}
	}
	desc := fmt.Sprintf("repository %d as %s, metadata before %v", id, layout, oldURLs)
	newKey := newURL + "|9"
	// fault free, recorded
	ref := filepath.Join(base, "ref")
	c32CopyTree(start, ref)
	p0 := simos.NewProc("indexserver", simos.Plan{})
	var e0 error
	c32WithProc(p0, func() { e0 = mergeMeta(opts(ref)) })
	ops := simos.StateOf(p0).Log
	res.Evals++
	relops := func() string {
		var out []string
		for _, o := range ops {
			out = append(out, fmt.Sprintf("%d:%s %s", o.K, o.Name, c12TmpRe.ReplaceAllString(strings.TrimPrefix(o.Path, ref+"/"), ".*.tmp")))
		}
		return strings.Join(out, "; ")
	}
	urls, docs, broken := c12MetaState(ref, id)
	if e0 != nil {
		report("fault-free-metadata-update-fails|"+layout, fmt.Sprintf("%v; %s; ops %s", e0, desc, relops()))
		return res
	}
	allNew := func(u []string) bool {
		for _, x := range u {
			if x != newKey {
				return false
			}
		}
		return len(u) == len(oldURLs)
	}
	if !allNew(urls) || fmt.Sprint(docs) != fmt.Sprint(oldDocs) || len(broken) > 0 {
		report("fault-free-metadata-update-wrong|"+layout, fmt.Sprintf("metadata %v docs changed=%t broken %v; %s; ops %s", urls, fmt.Sprint(docs) != fmt.Sprint(oldDocs), broken, desc, relops()))
		return res
	}
	firstInstall, lastInstall := 0, 0
	for _, o := range ops {
		if o.Name == "rename" && strings.HasSuffix(o.Path, ".meta") {
			if firstInstall == 0 {
				firstInstall = o.K
			}
			lastInstall = o.K
		}
	}
	for _, op := range ops {
		for _, kind := range []string{"fail", "kill"} {
			if kind == "kill" && !op.Mut {
				continue
			}
			d := filepath.Join(base, "x")
			os.RemoveAll(d)
			c32CopyTree(start, d)
			plan := simos.Plan{FailAt: op.K}
			if kind == "kill" {
				plan = simos.Plan{CrashAt: op.K}
			}
			res.Offered[kind+"-"+op.Name]++
			p := simos.NewProc("indexserver", plan)
			var e error
			completed := c32WithProc(p, func() { e = mergeMeta(opts(d)) })
			for k, v := range simos.StateOf(p).Fired {
				res.Faults[k] += v
			}
			urls, docs, broken := c12MetaState(d, id)
			res.Evals++
			where := fmt.Sprintf("%s at op %d (%s %s): completed=%t err=%v -> metadata %v broken %v; %s; ops %s", kind, op.K, op.Name, c12TmpRe.ReplaceAllString(filepath.Base(op.Path), ".*.tmp"), completed, e, urls, broken, desc, relops())
			res.Distinct = append(res.Distinct, c32Hash(fmt.Sprint(desc, kind, op.K, urls)))
			if len(broken) > 0 {
				report("unloadable-shard|"+kind+"|meta", where)
				continue
			}
			if fmt.Sprint(docs) != fmt.Sprint(oldDocs) {
				report("documents-changed-by-metadata-update|"+kind+"|meta", where)
				continue
			}
			isOld := fmt.Sprint(urls) == fmt.Sprint(oldURLs)
			if completed && e == nil && !allNew(urls) {
				report("success-reported-but-new-index-not-installed|"+kind+"-"+op.Name+"|meta", where)
				continue
			}
			if isOld || allNew(urls) {
				continue
			}
			inWindow := firstInstall > 0 && lastInstall > firstInstall && ((kind == "kill" && op.K > firstInstall && op.K <= lastInstall) || (kind == "fail" && op.K >= firstInstall && op.K <= lastInstall))
			if inWindow && kind == "kill" {
				report("mixed-install|kill-between-first-install-rename-and-end-of-cleanup|meta", where)
			} else if inWindow {
				report("mixed-install|failed-operation-during-install-or-cleanup|meta", where)
			} else {
				report("mixed|"+kind+"-outside-install-phase|meta", where)
			}
		}
	}
	res.Sample = map[string]any{"scenario": desc, "ops": relops(), "executions": res.Evals}
	res.Nontrivial = len(ops) > 0
	res.Hash = c32Hash(desc)
	return res
}

func debugLogOff() {
	debugLog = log.New(io.Discard, "", 0)
	infoLog = log.New(io.Discard, "", 0)
	errorLog = log.New(io.Discard, "", 0)
}

// the prepared images (zz_verif_c32_test.go) carry these branch versions
func c12MetaVersion(layout string) string {
	if layout == "simple2" {
		return "v-idx2"
	}
	return "v-idx"
}

var c12TmpRe = regexp.MustCompile(`\.\d+\.tmp`)
