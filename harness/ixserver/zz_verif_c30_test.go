package main

import (
	"fmt"
	"sort"
	"strconv"
	"strings"
	"testing"
	"time"

	"github.com/anishathalye/porcupine"
	sglog "github.com/sourcegraph/log"

	"github.com/sourcegraph/zoekt"
	"github.com/sourcegraph/zoekt/internal/verifsim/hx"
	"github.com/sourcegraph/zoekt/internal/verifsim/simrt"
)

// C30: the indexing queue behaves as a priority queue.
//
// Reference model written from the doc comments of queue.go/backoff.go:
//   - an item is tracked per repository id once any operation named it;
//   - AddOrUpdate stores the options; different options => "not indexed";
//     a tracked item that is not on the queue is enqueued (new sequence number)
//     unless it is backing off;
//   - Pop yields the minimum of (indexed, failed, sequence);
//   - SetIndexed(success): indexed iff the options equal the stored ones, backoff
//     reset; SetIndexed(fail): failed, backoff period = min(max, n*duration) for
//     the n-th consecutive failure, item leaves the queue;
//   - Bump enqueues tracked items that are not on the queue (unless backing
//     off) and returns the untracked ids;
//   - MaybeRemoveMissing forgets every tracked id that is not listed and returns
//     them; it may skip (return nothing) only when the number of tracked items
//     equals the number of listed ids.

func init() {
	hx.Register("C30", "C30", runC30Seq)
	hx.Register("C30/conc", "C30", runC30Conc)
}

type c30Item struct {
	id      uint32
	ver     int // 0 = options never given
	indexed bool
	failed  bool
	onQ     bool
	seq     int64
	consec  int
	until   int64 // unix nanos; 0 = not backing off
}

type c30State struct {
	items []c30Item // sorted by id
	seq   int64
	dur   time.Duration
	max   time.Duration
}

func (s c30State) key() string {
	var b strings.Builder
	fmt.Fprintf(&b, "%d;", s.seq)
	for _, it := range s.items {
		fmt.Fprintf(&b, "%d,%d,%t,%t,%t,%d,%d,%d;", it.id, it.ver, it.indexed, it.failed, it.onQ, it.seq, it.consec, it.until)
	}
	return b.String()
}

func (s c30State) clone() c30State {
	n := s
	n.items = append([]c30Item(nil), s.items...)
	return n
}

func (s *c30State) find(id uint32) int {
	for i := range s.items {
		if s.items[i].id == id {
			return i
		}
	}
	return -1
}

func (s *c30State) getOrAdd(id uint32) int {
	if i := s.find(id); i >= 0 {
		return i
	}
	s.items = append(s.items, c30Item{id: id})
	sort.Slice(s.items, func(i, j int) bool { return s.items[i].id < s.items[j].id })
	return s.find(id)
}

type c30In struct {
	kind  string // add, pop, len, bump, setok, setfail, remove
	id    uint32
	ver   int
	ids   []uint32
	now   int64 // sequential mode: exact clock at the operation
	noNow bool  // concurrent mode: clock frozen, backoff is "for ever" until reset
}

type c30Out struct {
	ok   bool
	id   uint32
	ver  int
	n    int
	list []uint32
}

func (o c30Out) String() string { return fmt.Sprintf("{ok:%t id:%d ver:%d n:%d list:%v}", o.ok, o.id, o.ver, o.n, o.list) }
func (i c30In) String() string {
	return fmt.Sprintf("%s(id=%d ver=%d ids=%v)", i.kind, i.id, i.ver, i.ids)
}

func (it *c30Item) allow(in c30In) bool {
	if it.until == 0 {
		return true
	}
	if in.noNow {
		return false
	}
	return it.until < in.now
}

func eqIDs(a, b []uint32) bool {
	if len(a) != len(b) {
		return false
	}
	x := append([]uint32(nil), a...)
	y := append([]uint32(nil), b...)
	sort.Slice(x, func(i, j int) bool { return x[i] < x[j] })
	sort.Slice(y, func(i, j int) bool { return y[i] < y[j] })
	for i := range x {
		if x[i] != y[i] {
			return false
		}
	}
	return true
}

// c30Step returns the possible (next state, expected output) pairs.
func c30Step(st c30State, in c30In, concurrent bool) []struct {
	s c30State
	o c30Out
} {
	type res = struct {
		s c30State
		o c30Out
	}
	s := st.clone()
	enqueue := func(i int) {
		if s.items[i].allow(in) {
			s.seq++
			s.items[i].seq = s.seq
			s.items[i].onQ = true
		}
	}
	switch in.kind {
	case "add":
		i := s.getOrAdd(in.id)
		if s.items[i].ver != in.ver {
			s.items[i].indexed = false
			s.items[i].ver = in.ver
		}
		if !s.items[i].onQ {
			enqueue(i)
		}
		return []res{{s, c30Out{}}}
	case "pop":
		best := -1
		for i := range s.items {
			if !s.items[i].onQ {
				continue
			}
			if best < 0 {
				best = i
				continue
			}
			x, y := s.items[i], s.items[best]
			less := false
			if x.indexed != y.indexed {
				less = !x.indexed
			} else if x.failed != y.failed {
				less = !x.failed
			} else {
				less = x.seq < y.seq
			}
			if less {
				best = i
			}
		}
		if best < 0 {
			return []res{{s, c30Out{ok: false}}}
		}
		s.items[best].onQ = false
		return []res{{s, c30Out{ok: true, id: s.items[best].id, ver: s.items[best].ver}}}
	case "len":
		n := 0
		for _, it := range s.items {
			if it.onQ {
				n++
			}
		}
		return []res{{s, c30Out{n: n}}}
	case "bump":
		var missing []uint32
		for _, id := range in.ids {
			i := s.find(id)
			if i < 0 {
				missing = append(missing, id)
			} else if !s.items[i].onQ {
				enqueue(i)
			}
		}
		return []res{{s, c30Out{list: missing}}}
	case "remove":
		return c30StepRemove(st, s, in)
	case "setok", "setfail":
		// The documentation does not say whether marking a repository the queue
		// does not know starts tracking it (without options) or is ignored; the
		// model allows both.
		if st.find(in.id) < 0 {
			out := []res{{st.clone(), c30Out{}}}
			return append(out, c30StepSet(s, in)...)
		}
		return c30StepSet(s, in)
	}
	panic("unknown op " + in.kind)
}

func c30StepSet(s c30State, in c30In) []struct {
	s c30State
	o c30Out
} {
	type res = struct {
		s c30State
		o c30Out
	}
	switch in.kind {
	case "setok":
		i := s.getOrAdd(in.id)
		s.items[i].failed = false
		s.items[i].indexed = s.items[i].ver == in.ver && in.ver != 0
		s.items[i].consec = 0
		s.items[i].until = 0
		return []res{{s, c30Out{}}}
	case "setfail":
		i := s.getOrAdd(in.id)
		s.items[i].failed = true
		d := time.Duration(s.items[i].consec+1) * s.dur
		if d > s.max {
			d = s.max
		} else {
			s.items[i].consec++
		}
		if in.noNow {
			s.items[i].until = 1
		} else {
			s.items[i].until = in.now + int64(d)
		}
		s.items[i].onQ = false
		return []res{{s, c30Out{}}}
	}
	panic("unknown op " + in.kind)
}

func c30StepRemove(st, s c30State, in c30In) []struct {
	s c30State
	o c30Out
} {
	type res = struct {
		s c30State
		o c30Out
	}
	switch in.kind {
	case "remove":
		var out []res
		if len(s.items) == len(in.ids) {
			out = append(out, res{st.clone(), c30Out{list: nil}})
		}
		{
			keep := map[uint32]bool{}
			for _, id := range in.ids {
				keep[id] = true
			}
			var removed []uint32
			var left []c30Item
			for _, it := range s.items {
				if keep[it.id] {
					left = append(left, it)
				} else {
					removed = append(removed, it.id)
				}
			}
			s.items = left
			out = append(out, res{s, c30Out{list: removed}})
		}
		return out
	}
	panic("unknown op " + in.kind)
}

func c30OutEq(kind string, a, b c30Out) bool {
	switch kind {
	case "pop":
		return a.ok == b.ok && (!a.ok || (a.id == b.id && a.ver == b.ver))
	case "len":
		return a.n == b.n
	case "bump", "remove":
		return eqIDs(a.list, b.list)
	}
	return true
}

func c30Opts(id uint32, ver int) IndexOptions {
	return IndexOptions{RepoID: id, Name: fmt.Sprintf("repo%d", id), Branches: []zoekt.RepositoryBranch{{Name: "HEAD", Version: strconv.Itoa(ver)}}}
}

func c30Apply(q *Queue, in c30In) c30Out {
	switch in.kind {
	case "add":
		q.AddOrUpdate(c30Opts(in.id, in.ver))
	case "pop":
		it, ok := q.Pop()
		o := c30Out{ok: ok}
		if ok {
			o.id = it.Opts.RepoID
			if len(it.Opts.Branches) > 0 {
				o.ver, _ = strconv.Atoi(it.Opts.Branches[0].Version)
			}
		}
		return o
	case "len":
		return c30Out{n: q.Len()}
	case "bump":
		return c30Out{list: q.Bump(in.ids)}
	case "setok":
		q.SetIndexed(c30Opts(in.id, in.ver), indexStateSuccess)
	case "setfail":
		q.SetIndexed(c30Opts(in.id, in.ver), indexStateFail)
	case "remove":
		return c30Out{list: q.MaybeRemoveMissing(in.ids)}
	}
	return c30Out{}
}

func c30GenOp(tp *simrt.Tape, nIDs int, allowUnknownSet bool) c30In {
	kinds := []string{"add", "add", "add", "pop", "pop", "len", "bump", "setok", "setok", "setfail", "remove"}
	in := c30In{kind: kinds[tp.Gen(len(kinds))]}
	in.id = uint32(1 + tp.Gen(nIDs))
	in.ver = 1 + tp.Gen(2)
	if in.kind == "bump" || in.kind == "remove" {
		for id := 1; id <= nIDs; id++ {
			if tp.Gen(2) == 1 {
				in.ids = append(in.ids, uint32(id))
			}
		}
	}
	return in
}

var c30Advances = []time.Duration{0, 0, 700*time.Millisecond + 1, 3300*time.Millisecond + 1, 17100*time.Millisecond + 1, 61300*time.Millisecond + 1, 11*time.Minute + 1}

// runC30Seq: sequential histories with clock jumps, compared step by step.
func runC30Seq(t *testing.T, tp *simrt.Tape, keepTrace bool) hx.Result {
	cfg := simrt.Config{MaxSteps: 50000, KeepTrace: keepTrace, Horizon: 48 * time.Hour}
	nIDs := tp.GenRange(1, 5)
	dur := []time.Duration{0, time.Second, 10 * time.Second}[tp.Gen(3)]
	max := []time.Duration{0, 25 * time.Second, 10 * time.Minute}[tp.Gen(3)]
	nOps := tp.GenRange(3, 40)
	type step struct {
		adv time.Duration
		in  c30In
	}
	var prog []step
	for i := 0; i < nOps; i++ {
		prog = append(prog, step{c30Advances[tp.Gen(len(c30Advances))], c30GenOp(tp, nIDs, true)})
	}
	var viol *hx.Violation
	var hist []string
	evals := 0
	finished := false
	s, res := hx.Sim(t, tp, cfg, func() {
		defer func() {
			// a panic inside the queue (e.g. a heap index out of range) is a verdict, not a dead worker
			if r := recover(); r != nil && viol == nil {
				viol = &hx.Violation{Sig: "panic|seq", Detail: fmt.Sprintf("%v; history: %s", r, strings.Join(hist, " ; "))}
			}
		}()
		q := NewQueue(dur, max, sglog.NoOp())
		mdur, mmax := dur, max
		if mdur < 0 || mmax < 0 {
			mdur, mmax = 0, 0
		}
		states := []c30State{{dur: mdur, max: mmax}}
		advance := func(in c30In, got c30Out) (bool, []string) {
			var next []c30State
			seen := map[string]bool{}
			var exp []string
			for _, st := range states {
				for _, n := range c30Step(st, in, false) {
					exp = append(exp, n.o.String())
					if c30OutEq(in.kind, n.o, got) {
						if k := n.s.key(); !seen[k] {
							seen[k] = true
							next = append(next, n.s)
						}
					}
				}
			}
			if len(next) == 0 {
				return false, exp
			}
			states = next
			return true, nil
		}
		for i, p := range prog {
			if p.adv > 0 {
				simrt.Sleep(p.adv)
			}
			in := p.in
			in.now = time.Now().UnixNano()
			got := c30Apply(q, in)
			evals++
			matched, exp := advance(in, got)
			hist = append(hist, fmt.Sprintf("%d +%v %v -> %v", i, p.adv, in, got))
			if !matched {
				viol = &hx.Violation{Sig: in.kind + "-result-differs-from-model|seq", Detail: fmt.Sprintf("op %d %v returned %v, model allows %v; history: %s", i, in, got, exp, strings.Join(hist, " ; "))}
				return
			}
		}
		// drain: the remaining queue content must come out in model order
		for k := 0; ; k++ {
			in := c30In{kind: "pop", now: time.Now().UnixNano()}
			got := c30Apply(q, in)
			ok, exp := advance(in, got)
			if !ok {
				viol = &hx.Violation{Sig: "drain-differs-from-model|seq", Detail: fmt.Sprintf("final drain pop %d returned %v, model expects %v; history: %s", k, got, exp, strings.Join(hist, " ; "))}
				return
			}
			if !got.ok {
				break
			}
		}
		finished = true
	})
	if s != nil && viol == nil && res.HarnessErr == "" {
		if s.Deadlocked() {
			viol = &hx.Violation{Sig: "deadlock|liveness", Detail: fmt.Sprint(s.BlockedSites())}
		} else if s.OverBudget() {
			res.HarnessErr = "step budget exceeded"
		} else if !finished {
			res.HarnessErr = "main task did not finish"
		}
	}
	res.Violation = viol
	res.Nontrivial = evals >= 3
	// sequential runs have no context switches: identify the case by its history
	res.Hash = hashStrings(hist)
	res.Sample = map[string]any{"mode": "sequential", "ids": nIDs, "backoff": dur.String(), "max_backoff": max.String(), "history": hist}
	return res
}

func hashStrings(ss []string) uint64 {
	h := uint64(0xcbf29ce484222325)
	for _, s := range ss {
		for i := 0; i < len(s); i++ {
			h ^= uint64(s[i])
			h *= 0x100000001b3
		}
		h ^= 0xff
		h *= 0x100000001b3
	}
	return h
}

// runC30Conc: 2-3 clients, frozen clock, linearizability against the
// nondeterministic model with porcupine.
func runC30Conc(t *testing.T, tp *simrt.Tape, keepTrace bool) hx.Result {
	cfg := simrt.DrawConfig(tp)
	cfg.KeepTrace = keepTrace
	cfg.JumpPerMille = 0
	cfg.MaxSteps = 50000
	nIDs := tp.GenRange(1, 4)
	nClients := tp.GenRange(2, 3)
	progs := make([][]c30In, nClients)
	total := 0
	for c := range progs {
		n := tp.GenRange(1, 8)
		for i := 0; i < n; i++ {
			in := c30GenOp(tp, nIDs, true)
			in.noNow = true
			progs[c] = append(progs[c], in)
			total++
		}
	}
	var ops []porcupine.Operation
	var viol *hx.Violation
	finished := false
	s, res := hx.Sim(t, tp, cfg, func() {
		q := NewQueue(time.Hour, time.Hour, sglog.NoOp())
		done := make(chan int, nClients)
		for c := 0; c < nClients; c++ {
			c := c
			simrt.GoNamed(fmt.Sprintf("client%d", c), func() {
				defer func() {
					if r := recover(); r != nil && viol == nil {
						viol = &hx.Violation{Sig: "panic|conc", Detail: fmt.Sprint(r)}
					}
					simrt.Send(done, "c30done")(c)
				}()
				for _, in := range progs[c] {
					simrt.Yield("c30-invoke")
					call := int64(simrt.StepNo())
					out := c30Apply(q, in)
					simrt.Yield("c30-return")
					ret := int64(simrt.StepNo())
					ops = append(ops, porcupine.Operation{ClientId: c, Input: in, Call: call, Output: out, Return: ret})
				}
			})
		}
		for c := 0; c < nClients; c++ {
			simrt.Recv(done, "c30main")
		}
		finished = true
	})
	if s != nil && viol == nil && res.HarnessErr == "" {
		if s.Deadlocked() {
			viol = &hx.Violation{Sig: "deadlock|liveness", Detail: fmt.Sprint(s.BlockedSites())}
		} else if s.OverBudget() {
			res.HarnessErr = "step budget exceeded"
		} else if !finished {
			res.HarnessErr = "main task did not finish"
		}
	}
	checked := false
	if viol == nil && res.HarnessErr == "" && finished {
		model := porcupine.NondeterministicModel{
			Init: func() []interface{} { return []interface{}{c30State{dur: time.Hour, max: time.Hour}} },
			Step: func(state, input, output interface{}) []interface{} {
				var outS []interface{}
				in := input.(c30In)
				for _, n := range c30Step(state.(c30State), in, true) {
					if c30OutEq(in.kind, n.o, output.(c30Out)) {
						outS = append(outS, n.s)
					}
				}
				return outS
			},
			Equal: func(a, b interface{}) bool { return a.(c30State).key() == b.(c30State).key() },
			DescribeOperation: func(input, output interface{}) string {
				return fmt.Sprintf("%v -> %v", input, output)
			},
		}
		r := porcupine.CheckOperationsTimeout(model.ToModel(), ops, 20*time.Second)
		switch r {
		case porcupine.Illegal:
			var hs []string
			for _, o := range ops {
				hs = append(hs, fmt.Sprintf("c%d[%d,%d] %v -> %v", o.ClientId, o.Call, o.Return, o.Input, o.Output))
			}
			viol = &hx.Violation{Sig: "history-not-linearizable|conc", Detail: strings.Join(hs, " ; ")}
			checked = true
		case porcupine.Ok:
			checked = true
		default:
			if res.Probes == nil {
				res.Probes = map[string]int{}
			}
			res.Probes["porcupine-unknown"]++
		}
	}
	res.Violation = viol
	res.Nontrivial = res.Switches >= 2 && checked && total >= 3
	res.Sample = map[string]any{"mode": "concurrent", "clients": nClients, "ids": nIDs, "programs": fmt.Sprintf("%v", progs), "steps": res.Steps, "switches": res.Switches}
	return res
}
