package main

import (
	"io"
	"log"
	"testing"

	"github.com/sourcegraph/zoekt/internal/verifsim/hx"
)

func TestVerif(t *testing.T) {
	log.SetOutput(io.Discard)
	hx.Main(t)
}
