package main

import (
	"bytes"
	"context"
	"crypto/sha1"
	"fmt"
	"os"
	"os/exec"
	"path/filepath"
	"regexp"
	"sort"
	"strings"
	"testing"

	"github.com/sourcegraph/zoekt"
	"github.com/sourcegraph/zoekt/index"
	"github.com/sourcegraph/zoekt/internal/tenant/systemtenant"
	"github.com/sourcegraph/zoekt/internal/verifsim/hx"
	"github.com/sourcegraph/zoekt/internal/verifsim/simos"
	"github.com/sourcegraph/zoekt/internal/verifsim/simrt"
	"github.com/sourcegraph/zoekt/query"
	"github.com/sourcegraph/zoekt/search"
)

// C33 / C34: zoekt-local-sync previews are side-effect free and faithful; -f
// makes the index match the discovered repositories.
//
// One run = one generated history over 2-3 root directories holding real git
// repositories (non-bare, bare, nested paths, a root that is itself a
// repository, repositories nested in another one's worktree, same-named
// repositories in two roots) and one index directory: repositories are
// created, removed, renamed, moved between roots and committed to; foreign
// shards appear; `sync`, `sync -f`, `remove SEL`, `remove -f SEL` run through
// execute() as a simulated process whose every file-system operation is
// logged and may fail or be the kill point.

func init() {
	hx.Register("C33", "C33", func(t *testing.T, tp *simrt.Tape, keep bool) hx.Result { return runLocalSync(t, tp, "C33") })
	hx.Register("C34", "C34", func(t *testing.T, tp *simrt.Tape, keep bool) hx.Result { return runLocalSync(t, tp, "C34") })
}

var lsScratch string

func lsDir() string {
	if lsScratch == "" {
		d, err := os.MkdirTemp("/dev/shm", "verif-ls-")
		if err != nil {
			d, _ = os.MkdirTemp("", "verif-ls-")
		}
		lsScratch = d
	}
	return lsScratch
}

var lsTick int

func lsGit(dir string, args ...string) string {
	cmd := exec.Command("git", args...)
	cmd.Dir = dir
	lsTick++
	date := fmt.Sprintf("2020-01-01T%02d:%02d:%02dZ", (lsTick/3600)%24, (lsTick/60)%60, lsTick%60)
	cmd.Env = append(os.Environ(), "GIT_CONFIG_NOSYSTEM=1", "GIT_CONFIG_GLOBAL=/dev/null", "HOME="+lsDir(),
		"GIT_AUTHOR_NAME=verif", "GIT_AUTHOR_EMAIL=verif@example.com", "GIT_COMMITTER_NAME=verif", "GIT_COMMITTER_EMAIL=verif@example.com",
		"GIT_AUTHOR_DATE="+date, "GIT_COMMITTER_DATE="+date)
	out, err := cmd.CombinedOutput()
	if err != nil {
		panic(fmt.Sprintf("git %v in %s: %v: %s", args, dir, err, out))
	}
	return string(out)
}

// lsRepo is one git repository of the world.
type lsRepo struct {
	root   int    // index into roots
	rel    string // path relative to the root ("." = the root itself)
	bare   bool
	inside *lsRepo // nested in this repository's worktree (then it is not discovered)
	work   string  // worktree used to make commits (for bare repositories: a scratch clone source)
	n      int
}

func (w *lsWorld) path(r *lsRepo) string {
	if r.rel == "." {
		return w.roots[r.root]
	}
	return filepath.Join(w.roots[r.root], r.rel)
}

// name as documented: path relative to its root; the root's base name for a
// repository at the root; bare repositories lose the .git suffix.
func (w *lsWorld) name(r *lsRepo) string {
	n := r.rel
	if n == "." {
		n = filepath.Base(w.roots[r.root])
	}
	if r.bare {
		n = strings.TrimSuffix(n, ".git")
	}
	return filepath.ToSlash(n)
}

type lsWorld struct {
	base     string
	roots    []string
	indexDir string
	repos    []*lsRepo
	seq      int
}

func (w *lsWorld) commit(r *lsRepo, what string) {
	r.n++
	w.seq++
	f := []string{"a.txt", "b.txt", "dir/c.txt"}[r.n%3]
	p := filepath.Join(r.work, f)
	os.MkdirAll(filepath.Dir(p), 0o755)
	os.WriteFile(p, []byte(fmt.Sprintf("needle %s revision %d (%d)\n", what, r.n, w.seq)), 0o644)
	if r.n%4 == 3 {
		os.Remove(filepath.Join(r.work, "a.txt"))
	}
	lsGit(r.work, "add", "-A")
	lsGit(r.work, "commit", "-q", "--allow-empty", "-m", fmt.Sprintf("c%d", w.seq))
	if r.bare {
		lsGit(w.path(r), "fetch", "-q", r.work, "+refs/heads/*:refs/heads/*")
	}
}

func (w *lsWorld) create(root int, rel string, bare bool, inside *lsRepo) *lsRepo {
	r := &lsRepo{root: root, rel: rel, bare: bare, inside: inside}
	dst := w.path(r)
	if bare {
		w.seq++
		r.work = filepath.Join(w.base, "origins", fmt.Sprintf("o%d", w.seq))
	} else {
		r.work = dst
	}
	os.MkdirAll(r.work, 0o755)
	lsGit(r.work, "init", "-q", "-b", "main")
	lsGit(r.work, "config", "core.autocrlf", "false")
	if bare {
		os.MkdirAll(filepath.Dir(dst), 0o755)
		lsGit(r.work, "commit", "-q", "--allow-empty", "-m", "root")
		lsGit(w.base, "clone", "-q", "--bare", r.work, dst)
	}
	w.repos = append(w.repos, r)
	w.commit(r, w.name(r))
	return r
}

// tree returns path -> content of HEAD.
func (w *lsWorld) tree(r *lsRepo) map[string]string {
	dir := w.path(r)
	out := map[string]string{}
	ls := lsGit(dir, "ls-tree", "-r", "-z", "HEAD")
	for _, e := range strings.Split(ls, "\x00") {
		if e == "" {
			continue
		}
		tab := strings.IndexByte(e, '\t')
		meta := strings.Fields(e[:tab])
		if meta[1] != "blob" {
			continue
		}
		out[e[tab+1:]] = lsGit(dir, "cat-file", "blob", meta[2])
	}
	return out
}

// discovered is the model of discovery: repositories under the given roots,
// not nested inside another repository.
func (w *lsWorld) discovered(roots []int) []*lsRepo {
	var out []*lsRepo
	for _, r := range w.repos {
		if r.inside != nil {
			continue
		}
		for _, ri := range roots {
			if r.root == ri {
				out = append(out, r)
			}
		}
	}
	return out
}

type lsSnap map[string]string // file name -> size:mtime:sha1

func lsSnapshot(dir string) lsSnap {
	s := lsSnap{}
	filepath.Walk(dir, func(p string, info os.FileInfo, err error) error {
		if err != nil || info.IsDir() {
			return nil
		}
		rel, _ := filepath.Rel(dir, p)
		if rel == lockFileName {
			return nil
		}
		b, _ := os.ReadFile(p)
		s[rel] = fmt.Sprintf("%d:%d:%x", info.Size(), info.ModTime().UnixNano(), sha1.Sum(b))
		return nil
	})
	return s
}

func (a lsSnap) diff(b lsSnap) []string {
	var out []string
	for k, v := range a {
		if w, ok := b[k]; !ok {
			out = append(out, "deleted "+k)
		} else if w != v {
			out = append(out, "changed "+k)
		}
	}
	for k := range b {
		if _, ok := a[k]; !ok {
			out = append(out, "created "+k)
		}
	}
	sort.Strings(out)
	return out
}

// indexContents: repository name -> (source, documents path->contents found) as a fresh searcher sees the directory.
type lsIndexed struct {
	source string
	docs   map[string][]string
	shards []string
}

func lsReadIndex(indexDir string) (map[string]*lsIndexed, []string) {
	out := map[string]*lsIndexed{}
	var problems []string
	fs, _ := filepath.Glob(filepath.Join(indexDir, "*.zoekt"))
	sort.Strings(fs)
	for _, f := range fs {
		repos, _, err := index.ReadMetadataPathAlive(f)
		if err != nil {
			problems = append(problems, filepath.Base(f)+": "+err.Error())
			continue
		}
		for _, r := range repos {
			e := out[r.Name]
			if e == nil {
				e = &lsIndexed{source: r.Source, docs: map[string][]string{}}
				out[r.Name] = e
			} else if e.source != r.Source {
				problems = append(problems, fmt.Sprintf("repository %q indexed from two sources: %s and %s", r.Name, e.source, r.Source))
			}
			e.shards = append(e.shards, filepath.Base(f))
		}
	}
	ss, err := search.NewDirectorySearcher(indexDir)
	if err != nil {
		return out, append(problems, "searcher: "+err.Error())
	}
	defer ss.Close()
	res, err := ss.Search(systemtenant.WithUnsafeContext(context.Background()), &query.Const{Value: true}, &zoekt.SearchOptions{Whole: true})
	if err != nil {
		return out, append(problems, "search: "+err.Error())
	}
	for _, fm := range res.Files {
		e := out[fm.Repository]
		if e == nil {
			problems = append(problems, fmt.Sprintf("search returns %s/%s of a repository that has no shard metadata", fm.Repository, fm.FileName))
			continue
		}
		e.docs[fm.FileName] = append(e.docs[fm.FileName], string(fm.Content))
	}
	return out, problems
}

var lsSeq = make(chan struct{}, 1)

// lsRun executes one zoekt-local-sync command as a simulated process.
func lsRun(plan simos.Plan, args []string) (out string, err error, completed bool, ops []simos.Op, fired map[string]int) {
	lsSeq <- struct{}{}
	defer func() { <-lsSeq }()
	p := simos.NewProc("local-sync", plan)
	simos.SetSeqProc(p)
	defer simos.SetSeqProc(nil)
	var ob, eb bytes.Buffer
	done := make(chan struct{})
	go func() {
		defer close(done)
		err = execute(args, &ob, &eb)
		completed = true
	}()
	<-done
	st := simos.StateOf(p)
	return ob.String(), err, completed, st.Log, st.Fired
}

// temp file names carry a random number
var lsTmpRe = regexp.MustCompile(`\.\d+\.tmp`)

var (
	reWouldRemove = regexp.MustCompile(`(?m)^Would remove (\S+) `)
	reRemoving    = regexp.MustCompile(`(?m)^Removing (\S+) `)
	reWouldIndex  = regexp.MustCompile(`(?m)^Would index "([^"]*)" `)
	reIndexed     = regexp.MustCompile(`(?m)^Indexed "([^"]*)" `)
)

func lsSet(re *regexp.Regexp, s string) []string {
	var out []string
	for _, m := range re.FindAllStringSubmatch(s, -1) {
		out = append(out, filepath.Base(m[1]))
	}
	sort.Strings(out)
	return out
}

func lsIndexMutations(ops []simos.Op, indexDir string) []string {
	var out []string
	for _, o := range ops {
		if !o.Mut {
			continue
		}
		if o.Path == indexDir && (o.Name == "mkdirall" || o.Name == "mkdir") {
			continue
		}
		if !strings.HasPrefix(o.Path, indexDir+"/") && o.Path != indexDir {
			continue
		}
		if filepath.Base(o.Path) == lockFileName {
			continue
		}
		out = append(out, fmt.Sprintf("%s %s", o.Name, strings.TrimPrefix(o.Path, indexDir+"/")))
	}
	return out
}

func runLocalSync(t *testing.T, tp *simrt.Tape, prop string) hx.Result {
	base, err := os.MkdirTemp(lsDir(), "run-")
	if err != nil {
		return hx.Result{HarnessErr: err.Error()}
	}
	defer os.RemoveAll(base)
	var res hx.Result
	res.Faults, res.Offered, res.Probes = map[string]int{}, map[string]int{}, map[string]int{}
	seen := map[string]bool{}
	var history []string
	report := func(forProp, sig, detail string) {
		if forProp != prop {
			return
		}
		if !seen[sig] {
			seen[sig] = true
			res.Violations = append(res.Violations, hx.Violation{Sig: sig, Detail: detail + "; history: " + strings.Join(history, " | ")})
		}
	}
	w := &lsWorld{base: base, indexDir: filepath.Join(base, "index")}
	nRoots := tp.GenRange(2, 3)
	for i := 0; i < nRoots; i++ {
		r := filepath.Join(base, fmt.Sprintf("root%c", 'A'+i))
		os.MkdirAll(r, 0o755)
		w.roots = append(w.roots, r)
	}
	// some names order differently than their (URL-escaped, suffixed) shard file names
	rels := []string{"alpha", "group/beta", "gamma.git", "group/delta", "alpha.git", "x/y/zeta", "group/beta-old", "alpha.web"}
	free := func(root int, rel string) bool {
		for _, r := range w.repos {
			if r.root == root && (r.rel == rel || r.rel == "." || strings.HasPrefix(rel, r.rel+"/") || strings.HasPrefix(r.rel, rel+"/")) {
				return false
			}
		}
		return true
	}
	remove := func(r *lsRepo) {
		var keep []*lsRepo
		for _, x := range w.repos {
			if x != r && x.inside != r {
				keep = append(keep, x)
			}
		}
		w.repos = keep
		if r.rel == "." {
			// keep the root directory itself
			es, _ := os.ReadDir(w.path(r))
			for _, e := range es {
				os.RemoveAll(filepath.Join(w.path(r), e.Name()))
			}
			return
		}
		os.RemoveAll(w.path(r))
	}
	genCreate := func() {
		root := tp.Gen(nRoots)
		switch tp.Gen(10) {
		case 0:
			// the root itself is a repository (only if it is empty)
			if es, _ := os.ReadDir(w.roots[root]); len(es) == 0 {
				w.create(root, ".", false, nil)
				history = append(history, fmt.Sprintf("create repo at root%c itself", 'A'+root))
			}
			return
		case 1:
			// a repository nested in another one's worktree
			for _, r := range w.repos {
				if !r.bare && r.inside == nil && r.rel != "." && free(r.root, r.rel+"/vendor/inner") {
					rel := r.rel + "/vendor/inner"
					ok := true
					for _, x := range w.repos {
						if x.root == r.root && x.rel == rel {
							ok = false
						}
					}
					if ok {
						w.create(r.root, rel, false, r)
						history = append(history, fmt.Sprintf("create nested repo root%c/%s", 'A'+r.root, rel))
					}
					return
				}
			}
			return
		}
		rel := rels[tp.Gen(len(rels))]
		if !free(root, rel) {
			return
		}
		bare := strings.HasSuffix(rel, ".git")
		w.create(root, rel, bare, nil)
		history = append(history, fmt.Sprintf("create repo root%c/%s", 'A'+root, rel))
	}
	for i := 0; i < tp.GenRange(1, 3); i++ {
		genCreate()
	}
	shardLimit := 0
	rootArgs := func(sel []int) []string {
		var out []string
		for _, i := range sel {
			out = append(out, w.roots[i])
		}
		return out
	}
	pickRoots := func() []int {
		var sel []int
		for i := 0; i < nRoots; i++ {
			if tp.Gen(4) != 0 {
				sel = append(sel, i)
			}
		}
		if len(sel) == 0 {
			sel = []int{tp.Gen(nRoots)}
		}
		return sel
	}
	rootNames := func(sel []int) string {
		s := ""
		for _, i := range sel {
			s += string(rune('A' + i))
		}
		return s
	}
	// extraRoot, when set, is passed as one more root: a directory inside one of
	// the roots (a sub-directory holding repositories, or a directory inside a
	// repository's worktree that holds a nested repository).
	extraRoot := ""
	// expected: the repositories the command must discover (name -> repository) and
	// whether it must refuse (two repositories with one name, or one repository
	// reached through two roots).
	expected := func(sel []int) (map[string]*lsRepo, bool) {
		want := map[string]*lsRepo{}
		mustFail := false
		byPath := map[string]bool{}
		for _, r := range w.discovered(sel) {
			n := w.name(r)
			if want[n] != nil {
				mustFail = true
			}
			want[n] = r
			byPath[w.path(r)] = true
		}
		if extraRoot != "" {
			for _, r := range w.repos {
				p := w.path(r)
				if p != extraRoot && !strings.HasPrefix(p, extraRoot+"/") {
					continue
				}
				nested := false
				for _, y := range w.repos {
					yp := w.path(y)
					if y != r && (yp == extraRoot || strings.HasPrefix(yp, extraRoot+"/")) && strings.HasPrefix(p, yp+"/") {
						nested = true // the walk from extraRoot stops at the enclosing repository
					}
				}
				if nested {
					continue
				}
				rel, _ := filepath.Rel(extraRoot, p)
				n := filepath.ToSlash(rel)
				if n == "." {
					n = filepath.Base(extraRoot)
				}
				if r.bare {
					n = strings.TrimSuffix(n, ".git")
				}
				if byPath[p] || want[n] != nil {
					mustFail = true
				}
				want[n] = r
				byPath[p] = true
			}
		}
		return want, mustFail
	}
	syncArgs := func(force bool, sel []int) []string {
		a := []string{"-index", w.indexDir, "-disable_ctags", "-parallelism", "1"}
		if shardLimit > 0 {
			a = append(a, "-shard_limit", fmt.Sprint(shardLimit)) // repositories span several shards
		}
		if force {
			a = append(a, "-f")
		}
		a = append(a, rootArgs(sel)...)
		if extraRoot != "" {
			a = append(a, extraRoot)
		}
		return a
	}
	dupNames := func(sel []int) bool {
		_, mustFail := expected(sel)
		return mustFail
	}
	sigSuffix := "" // narrows the signatures of checkConverged for a recorded root cause
	checkConverged := func(sel []int, ctx string) {
		idx, problems := lsReadIndex(w.indexDir)
		if len(problems) > 0 {
			report("C34", "index-not-loadable-after-sync", fmt.Sprintf("%s: %v", ctx, problems))
			return
		}
		want, _ := expected(sel)
		for _, e := range idx {
			if len(e.shards) > 1 {
				res.Probes["repository-spans-several-shards"]++
			}
		}
		for name, r := range want {
			e := idx[name]
			if e == nil {
				report("C34", "discovered-repository-not-indexed", fmt.Sprintf("%s: repository %q (%s) is under the roots but not in the index; index has %v", ctx, name, w.path(r), lsKeys(idx)))
				continue
			}
			tree := w.tree(r)
			var probs []string
			for p, c := range tree {
				switch docs := e.docs[p]; {
				case len(docs) == 0:
					probs = append(probs, fmt.Sprintf("%s missing", p))
				case len(docs) > 1:
					probs = append(probs, fmt.Sprintf("%s found %d times", p, len(docs)))
				case docs[0] != c:
					probs = append(probs, fmt.Sprintf("%s has content %q, HEAD has %q", p, docs[0], c))
				}
			}
			for p := range e.docs {
				if _, ok := tree[p]; !ok {
					probs = append(probs, fmt.Sprintf("%s indexed but not in HEAD", p))
				}
			}
			sort.Strings(probs)
			if len(probs) > 0 {
				report("C34", "indexed-repository-not-up-to-date"+sigSuffix, fmt.Sprintf("%s: repository %q: %v", ctx, name, probs))
			}
			src := e.source
			if filepath.Base(src) == ".git" {
				src = filepath.Dir(src)
			}
			if src != w.path(r) {
				report("C34", "indexed-repository-has-wrong-source", fmt.Sprintf("%s: repository %q is indexed from %s, the discovered repository is %s", ctx, name, e.source, w.path(r)))
			}
		}
		for name, e := range idx {
			if want[name] == nil {
				report("C34", "index-holds-undiscovered-repository", fmt.Sprintf("%s: index holds repository %q (source %s, shards %v) which is not under the roots; discovered %v", ctx, name, e.source, e.shards, lsKeysR(want)))
			}
		}
	}
	extraDesc := func() string {
		if extraRoot == "" {
			return ""
		}
		return " +root " + strings.TrimPrefix(extraRoot, w.base+"/")
	}
	syncPair := func(sel []int, allowFault bool) {
		// sync preview followed by the same command with -f
		before := lsSnapshot(w.indexDir)
		pout, perr, _, pops, _ := lsRun(simos.Plan{}, syncArgs(false, sel))
		after := lsSnapshot(w.indexDir)
		res.Evals++
		history = append(history, fmt.Sprintf("sync roots=%s%s", rootNames(sel), extraDesc()))
		ctx := fmt.Sprintf("sync (preview) over roots %s", rootNames(sel))
		if muts := lsIndexMutations(pops, w.indexDir); len(muts) > 0 {
			report("C33", "preview-mutates-index-directory|sync", fmt.Sprintf("%s performed %v in the index directory", ctx, muts))
		}
		if d := before.diff(after); len(d) > 0 {
			report("C33", "preview-changes-index-directory|sync", fmt.Sprintf("%s changed the index directory: %v", ctx, d))
		}
		// optional fault in the forced run
		plan := simos.Plan{}
		fault := ""
		if allowFault && tp.Gen(5) == 0 {
			// record the forced run on a copy of the index? It is cheaper to pick an operation number blindly.
			k := 1 + tp.Fault(60)
			if tp.Fault(2) == 0 {
				plan = simos.Plan{CrashAt: k}
				fault = fmt.Sprintf("killed before its file-system operation %d", k)
			} else {
				plan = simos.Plan{FailAt: k}
				fault = fmt.Sprintf("its file-system operation %d fails with EIO", k)
			}
		}
		fbefore := lsSnapshot(w.indexDir)
		fout, ferr, completed, fops, fired := lsRun(plan, syncArgs(true, sel))
		res.Evals++
		for kk, v := range fired {
			res.Faults[kk] += v
		}
		faulted := len(fired) > 0
		h := fmt.Sprintf("sync -f roots=%s%s", rootNames(sel), extraDesc())
		if faulted {
			h += " (" + fault + ")"
			for _, o := range fops {
				if (plan.CrashAt == o.K || plan.FailAt == o.K) && o.K > 0 {
					h += fmt.Sprintf(" [%s %s]", o.Name, lsTmpRe.ReplaceAllString(filepath.Base(o.Path), ".*.tmp"))
				}
			}
		}
		if ferr != nil {
			h += " -> error"
		}
		history = append(history, h)
		fctx := fmt.Sprintf("sync -f over roots %s", rootNames(sel))
		if !faulted {
			if dupNames(sel) {
				res.Probes["duplicate-names"]++
				if ferr == nil {
					report("C34", "duplicate-names-accepted", fmt.Sprintf("%s succeeded although two discovered repositories get the same name or one repository is reached through two roots", fctx))
				}
				if muts := lsIndexMutations(fops, w.indexDir); len(muts) > 0 {
					report("C34", "failed-for-duplicates-after-changing-the-index", fmt.Sprintf("%s failed (%v) but performed %v", fctx, ferr, muts))
				}
				if d := fbefore.diff(lsSnapshot(w.indexDir)); len(d) > 0 {
					report("C34", "failed-for-duplicates-after-changing-the-index", fmt.Sprintf("%s failed (%v) but the index directory changed: %v", fctx, ferr, d))
				}
				if perr == nil {
					report("C33", "preview-succeeds-where-forced-run-refuses|sync", fmt.Sprintf("%s: preview succeeded, -f failed with %v", ctx, ferr))
				}
			} else {
				if perr != nil && ferr == nil {
					report("C33", "preview-fails-where-forced-run-succeeds|sync", fmt.Sprintf("%s failed with %v but the same command with -f succeeded", ctx, perr))
				}
				if perr == nil && ferr != nil {
					res.Probes["forced-run-failed-after-clean-preview"]++
					report("C33", "forced-run-fails-after-clean-preview|sync", fmt.Sprintf("%s succeeded but the same command with -f failed: %v", ctx, ferr))
				}
				if perr == nil && ferr == nil {
					pr, fr := lsSet(reWouldRemove, pout), lsSet(reRemoving, fout)
					pi, fi := lsSet(reWouldIndex, pout), lsSet(reIndexed, fout)
					if fmt.Sprint(pr) != fmt.Sprint(fr) {
						report("C33", "announced-removals-differ-from-performed|sync", fmt.Sprintf("%s announced removals %v, the same command with -f removed %v", ctx, pr, fr))
					}
					if fmt.Sprint(pi) != fmt.Sprint(fi) {
						report("C33", "announced-indexing-differs-from-performed|sync", fmt.Sprintf("%s announced (re)indexing of %v, the same command with -f indexed %v\npreview output:\n%s\n-f output:\n%s", ctx, pi, fi, pout, fout))
					}
					if len(pr)+len(pi) > 0 {
						res.Probes["preview-announced-something"]++
					}
				}
				if ferr == nil {
					checkConverged(sel, fctx)
				}
			}
		} else {
			res.Offered["fault-in-forced-sync"]++
			if completed && ferr == nil && plan.FailAt > 0 {
				// an I/O error was injected into some operation; if the command still claims success the index must have converged
				checkConverged(sel, fctx+" ("+fault+", success reported)")
			}
			// recovery: the next fault-free sync -f must converge (unless names collide)
			rout, rerr, _, _, _ := lsRun(simos.Plan{}, syncArgs(true, sel))
			_ = rout
			res.Evals++
			history = append(history, fmt.Sprintf("sync -f roots=%s (recovery)", rootNames(sel)))
			if !dupNames(sel) {
				if rerr != nil {
					report("C34", "sync-does-not-recover-after-interrupted-run", fmt.Sprintf("sync -f after an interrupted run (%s) fails: %v", fault, rerr))
				} else {
					// One recorded root cause gets its own, narrow signature: the interrupted run
					// was KILLED after it had renamed a first shard (…00000.zoekt) into place and
					// before it finished; IndexState reads that shard only, so the recovery run
					// reports "Up to date" (the C12 install window seen through the skip decision).
					if plan.CrashAt > 0 && !completed {
						for _, o := range fops {
							if o.Mut && o.Name == "rename" && o.K < plan.CrashAt && strings.HasSuffix(o.Path, ".00000.zoekt") {
								sigSuffix = "|after-kill-following-first-shard-install"
							}
						}
					}
					checkConverged(sel, fctx+" after an interrupted run ("+fault+")")
					sigSuffix = ""
				}
			}
		}
		res.Distinct = append(res.Distinct, lsHash(strings.Join(history, "|")))
	}
	nSteps := tp.GenRange(3, 8)
	shardLimit = []int{0, 0, 30}[tp.Gen(3)]
	allRoots := []int{}
	for i := 0; i < nRoots; i++ {
		allRoots = append(allRoots, i)
	}
	// a quarter of the runs start with a scripted prefix that sets up a state the
	// random steps reach only rarely; the random steps then continue from it
	if len(w.repos) > 0 {
		first := w.repos[0]
		switch tp.Gen(12) {
		case 0:
			// indexed, then moved to another root keeping its name (no new commit)
			if first.rel != "." && first.inside == nil {
				syncPair(allRoots, false)
				nr := (first.root + 1) % nRoots
				if free(nr, first.rel) {
					old := w.path(first)
					history = append(history, fmt.Sprintf("move repo root%c/%s -> root%c/%s", 'A'+first.root, first.rel, 'A'+nr, first.rel))
					first.root = nr
					os.MkdirAll(filepath.Dir(w.path(first)), 0o755)
					if err := os.Rename(old, w.path(first)); err != nil {
						res.HarnessErr = "move: " + err.Error()
					}
					if !first.bare {
						first.work = w.path(first)
					}
					syncPair(allRoots, false)
				}
			}
		case 1:
			// a repository spanning several shards, synchronised twice without any change
			shardLimit = 30
			w.commit(first, w.name(first))
			w.commit(first, w.name(first))
			history = append(history, fmt.Sprintf("2 commits in root%c/%s", 'A'+first.root, first.rel))
			syncPair(allRoots, false)
			syncPair(allRoots, false)
		case 3:
			// two repositories whose names order differently than their shard files move
			// to another root together (keeping their names) and get new commits
			if nRoots >= 2 && free(0, "group/beta") && free(0, "group/beta-old") && free(1, "group/beta") && free(1, "group/beta-old") {
				a := w.create(0, "group/beta", false, nil)
				b := w.create(0, "group/beta-old", false, nil)
				history = append(history, "create repo rootA/group/beta", "create repo rootA/group/beta-old")
				syncPair(allRoots, false)
				for _, r := range []*lsRepo{a, b} {
					old := w.path(r)
					r.root = 1
					os.MkdirAll(filepath.Dir(w.path(r)), 0o755)
					if err := os.Rename(old, w.path(r)); err != nil {
						res.HarnessErr = "move: " + err.Error()
					}
					r.work = w.path(r)
				}
				history = append(history, "move rootA/group/beta and rootA/group/beta-old to rootB (no new commits)")
				syncPair(allRoots, false)
			}
		case 2:
			// indexed, then only mutable metadata changes
			syncPair(allRoots, false)
			w.seq++
			lsGit(w.path(first), "config", "zoekt.web-url", fmt.Sprintf("http://example.com/%s/%d", w.name(first), w.seq))
			history = append(history, fmt.Sprintf("set zoekt.web-url in root%c/%s", 'A'+first.root, first.rel))
			syncPair(allRoots, false)
		}
	}
	forceSync := false // the next step is a sync (preview + forced run)
	for step := 0; step < nSteps && res.HarnessErr == ""; step++ {
		k := tp.Gen(16)
		if forceSync {
			k, forceSync = 5, false
		}
		if k == 15 {
			k = 13
		}
		switch {
		case k == 0:
			genCreate()
		case k == 1 && len(w.repos) > 0:
			r := w.repos[tp.Gen(len(w.repos))]
			history = append(history, fmt.Sprintf("delete repo root%c/%s", 'A'+r.root, r.rel))
			remove(r)
		case k == 2 && len(w.repos) > 0:
			// rename within the root or move to another root keeping the relative path
			r := w.repos[tp.Gen(len(w.repos))]
			if r.rel == "." || r.inside != nil {
				break
			}
			hasInner := false
			for _, x := range w.repos {
				if x.inside == r {
					hasInner = true
				}
			}
			if hasInner {
				break
			}
			nr, nrel := r.root, r.rel
			if tp.Gen(2) == 0 {
				nr = (r.root + 1 + tp.Gen(nRoots-1)) % nRoots
			} else {
				nrel = rels[tp.Gen(len(rels))]
				if strings.HasSuffix(nrel, ".git") != r.bare {
					break
				}
			}
			if !free(nr, nrel) {
				break
			}
			old := w.path(r)
			history = append(history, fmt.Sprintf("move repo root%c/%s -> root%c/%s", 'A'+r.root, r.rel, 'A'+nr, nrel))
			r.root, r.rel = nr, nrel
			os.MkdirAll(filepath.Dir(w.path(r)), 0o755)
			if err := os.Rename(old, w.path(r)); err != nil {
				res.HarnessErr = "move: " + err.Error()
			}
			if !r.bare {
				r.work = w.path(r)
			}
			forceSync = tp.Gen(3) != 0
		case k == 3 && len(w.repos) > 0:
			r := w.repos[tp.Gen(len(w.repos))]
			w.commit(r, w.name(r))
			history = append(history, fmt.Sprintf("commit in root%c/%s", 'A'+r.root, r.rel))
		case k == 13 && len(w.repos) > 0:
			// only mutable metadata changes (HEAD stays): the web URL recorded in the git config
			r := w.repos[tp.Gen(len(w.repos))]
			w.seq++
			lsGit(w.path(r), "config", "zoekt.web-url", fmt.Sprintf("http://example.com/%s/%d", w.name(r), w.seq))
			history = append(history, fmt.Sprintf("set zoekt.web-url in root%c/%s", 'A'+r.root, r.rel))
			forceSync = tp.Gen(3) != 0
		case k == 4:
			// a shard that zoekt-local-sync did not create: no source recorded
			os.MkdirAll(w.indexDir, 0o755)
			name := []string{"foreign", "alpha"}[tp.Gen(2)]
			if fs, _ := filepath.Glob(filepath.Join(w.indexDir, name+"_v*")); len(fs) > 0 {
				break
			}
			b, err := index.NewBuilder(index.Options{IndexDir: w.indexDir, DisableCTags: true, Parallelism: 1, RepositoryDescription: zoekt.Repository{Name: name}})
			if err == nil {
				b.AddFile("foreign.txt", []byte("needle foreign\n"))
				err = b.Finish()
			}
			if err != nil {
				res.HarnessErr = "foreign shard: " + err.Error()
			}
			history = append(history, fmt.Sprintf("foreign shard %q without source appears", name))
			if tp.Gen(2) == 0 {
				// what a killed index run leaves behind
				os.WriteFile(filepath.Join(w.indexDir, name+"_v16.00000.zoekt.424242.tmp"), []byte("partial shard"), 0o644)
				os.WriteFile(filepath.Join(w.indexDir, name+"_v16.00000.zoekt.meta.434343.tmp"), []byte("{"), 0o644)
				history = append(history, "temp files of a killed index run appear")
			}
		case k <= 8 || k == 14:
			if tp.Gen(5) == 0 {
				var cands []string
				for _, r := range w.repos {
					if r.inside != nil {
						cands = append(cands, filepath.Join(w.path(r.inside), "vendor"))
					} else if i := strings.LastIndex(r.rel, "/"); i > 0 {
						cands = append(cands, filepath.Join(w.roots[r.root], r.rel[:i]))
					}
				}
				sort.Strings(cands)
				if len(cands) > 0 {
					extraRoot = cands[tp.Gen(len(cands))]
				}
			}
			syncPair(pickRoots(), true)
			extraRoot = ""
		default:
			// remove preview + remove -f
			idx, _ := lsReadIndex(w.indexDir)
			var sels []string
			for n, e := range idx {
				sels = append(sels, n)
				if e.source != "" {
					sels = append(sels, e.source)
				}
			}
			sort.Strings(sels)
			for n := range idx {
				// the forms a shell completion produces; they are paths relative to the
				// working directory, not repository names
				sels = append(sels, "./"+n, n+"/")
			}
			sort.Strings(sels)
			sels = append(sels, "no-such-repository")
			sel := sels[tp.Gen(len(sels))]
			args := []string{"remove", "-index", w.indexDir}
			before := lsSnapshot(w.indexDir)
			pout, perr, _, pops, _ := lsRun(simos.Plan{}, append(args, sel))
			res.Evals++
			history = append(history, "remove "+sel)
			ctx := "remove (preview) " + sel
			if muts := lsIndexMutations(pops, w.indexDir); len(muts) > 0 {
				report("C33", "preview-mutates-index-directory|remove", fmt.Sprintf("%s performed %v in the index directory", ctx, muts))
			}
			if d := before.diff(lsSnapshot(w.indexDir)); len(d) > 0 {
				report("C33", "preview-changes-index-directory|remove", fmt.Sprintf("%s changed the index directory: %v", ctx, d))
			}
			plan := simos.Plan{}
			if tp.Gen(6) == 0 {
				plan = simos.Plan{FailFrom: 1, FailKind: "remove"}
			}
			fout, ferr, _, _, fired := lsRun(plan, append([]string{"remove", "-f", "-index", w.indexDir}, sel))
			res.Evals++
			for kk, v := range fired {
				res.Faults[kk] += v
			}
			history = append(history, "remove -f "+sel)
			afterF := lsSnapshot(w.indexDir)
			if len(fired) > 0 {
				if ferr == nil {
					report("C34", "removal-error-not-reported", fmt.Sprintf("remove -f %s: every file removal failed with EIO but the command reported success", sel))
				}
				break
			}
			if (perr == nil) != (ferr == nil) {
				report("C33", "preview-and-forced-run-disagree-on-failure|remove", fmt.Sprintf("%s: preview error %v, -f error %v", ctx, perr, ferr))
			}
			if perr == nil && ferr == nil {
				pr, fr := lsSet(reWouldRemove, pout), lsSet(reRemoving, fout)
				if fmt.Sprint(pr) != fmt.Sprint(fr) {
					report("C33", "announced-removals-differ-from-performed|remove", fmt.Sprintf("%s announced %v, -f removed %v", ctx, pr, fr))
				}
			}
			// exactly the selected repository's shards are deleted
			var wantGone []string
			for n, e := range idx {
				src := e.source
				if n == sel || (src != "" && normalizeSource(src) == normalizeSource(sel)) {
					wantGone = append(wantGone, e.shards...)
				}
			}
			if _, byName := idx[sel]; byName {
				wantGone = append([]string(nil), idx[sel].shards...)
			}
			sort.Strings(wantGone)
			if ferr == nil {
				var gone []string
				for _, d := range before.diff(afterF) {
					if strings.HasPrefix(d, "deleted ") && strings.HasSuffix(d, ".zoekt") {
						gone = append(gone, strings.TrimPrefix(d, "deleted "))
					} else if !strings.HasPrefix(d, "deleted ") {
						report("C34", "remove-changed-other-files", fmt.Sprintf("remove -f %s: %s", sel, d))
					}
				}
				sort.Strings(gone)
				if fmt.Sprint(gone) != fmt.Sprint(wantGone) {
					report("C34", "remove-deleted-wrong-shards", fmt.Sprintf("remove -f %s deleted shards %v, the selected repository's shards are %v", sel, gone, wantGone))
				}
				for _, d := range before.diff(afterF) {
					if strings.HasPrefix(d, "deleted ") {
						f := strings.TrimPrefix(d, "deleted ")
						ok := false
						for _, g := range wantGone {
							if strings.HasPrefix(f, g) {
								ok = true
							}
						}
						if !ok {
							report("C34", "remove-deleted-wrong-shards", fmt.Sprintf("remove -f %s deleted %s which does not belong to the selected repository (%v)", sel, f, wantGone))
						}
					}
				}
			} else if d := before.diff(afterF); len(d) > 0 {
				report("C34", "failed-remove-changed-the-index", fmt.Sprintf("remove -f %s failed (%v) but changed the index directory: %v", sel, ferr, d))
			}
			res.Distinct = append(res.Distinct, lsHash(strings.Join(history, "|")))
		}
	}
	res.Sample = map[string]any{"history": history}
	res.Nontrivial = res.Evals > 0
	res.Hash = lsHash(strings.Join(history, "|"))
	return res
}

func lsKeys(m map[string]*lsIndexed) []string {
	var out []string
	for k := range m {
		out = append(out, k)
	}
	sort.Strings(out)
	return out
}

func lsKeysR(m map[string]*lsRepo) []string {
	var out []string
	for k := range m {
		out = append(out, k)
	}
	sort.Strings(out)
	return out
}

func lsHash(s string) uint64 {
	h := uint64(0xcbf29ce484222325)
	for i := 0; i < len(s); i++ {
		h ^= uint64(s[i])
		h *= 0x100000001b3
	}
	return h
}
