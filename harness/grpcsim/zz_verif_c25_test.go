package server

import (
	"context"
	"errors"
	"fmt"
	"strings"
	"testing"
	"time"

	"google.golang.org/grpc/metadata"
	"google.golang.org/protobuf/proto"

	"github.com/sourcegraph/zoekt"
	webserverv1 "github.com/sourcegraph/zoekt/grpc/protos/zoekt/webserver/v1"
	"github.com/sourcegraph/zoekt/internal/verifsim/hx"
	"github.com/sourcegraph/zoekt/internal/verifsim/simrt"
	"github.com/sourcegraph/zoekt/query"
)

// C25: streaming delivers every file once and conserves statistics.

func init() { hx.Register("C25", "C25", runC25) }

// ---- simulated transport ---------------------------------------------------

type simStream struct {
	ctx      context.Context
	msgs     []*webserverv1.StreamSearchResponse
	failFrom int // Send fails from this message index on (-1 never)
	slow     bool
	sendErrs int
}

var errTransport = errors.New("simulated transport failure")

func (s *simStream) Send(m *webserverv1.StreamSearchResponse) error {
	if s.slow {
		simrt.Sleep(time.Millisecond)
	} else {
		simrt.Yield("grpc-send")
	}
	if s.failFrom >= 0 && len(s.msgs)+s.sendErrs >= s.failFrom {
		s.sendErrs++
		return errTransport
	}
	// the wire copies the message
	s.msgs = append(s.msgs, proto.Clone(m).(*webserverv1.StreamSearchResponse))
	return nil
}
func (s *simStream) SetHeader(metadata.MD) error  { return nil }
func (s *simStream) SendHeader(metadata.MD) error { return nil }
func (s *simStream) SetTrailer(metadata.MD)       {}
func (s *simStream) Context() context.Context     { return s.ctx }
func (s *simStream) SendMsg(m any) error          { return nil }
func (s *simStream) RecvMsg(m any) error          { return nil }

// ---- stub result source ----------------------------------------------------

type stubStreamer struct {
	events []*zoekt.SearchResult
	err    error
}

func (s *stubStreamer) Search(ctx context.Context, q query.Q, opts *zoekt.SearchOptions) (*zoekt.SearchResult, error) {
	return &zoekt.SearchResult{}, nil
}
func (s *stubStreamer) List(ctx context.Context, q query.Q, opts *zoekt.ListOptions) (*zoekt.RepoList, error) {
	return &zoekt.RepoList{}, nil
}
func (s *stubStreamer) Close()         {}
func (s *stubStreamer) String() string { return "stub" }
func (s *stubStreamer) StreamSearch(ctx context.Context, q query.Q, opts *zoekt.SearchOptions, sender zoekt.Sender) error {
	for _, e := range s.events {
		simrt.Yield("produce")
		// producers hand over their own copy, like the shard searcher does
		cp := *e
		cp.Files = append([]zoekt.FileMatch(nil), e.Files...)
		sender.Send(&cp)
	}
	return s.err
}

func counters(s zoekt.Stats) [18]int64 {
	return [18]int64{s.ContentBytesLoaded, s.IndexBytesLoaded, int64(s.Crashes), int64(s.FileCount), int64(s.FilesConsidered), int64(s.FilesLoaded), int64(s.FilesSkipped),
		int64(s.MatchCount), int64(s.NgramMatches), int64(s.NgramLookups), int64(s.ShardFilesConsidered), int64(s.ShardsScanned), int64(s.ShardsSkipped), int64(s.ShardsSkippedFilter),
		int64(s.Wait), int64(s.MatchTreeConstruction), int64(s.MatchTreeSearch), int64(s.RegexpsConsidered)}
}

var counterNames = [18]string{"ContentBytesLoaded", "IndexBytesLoaded", "Crashes", "FileCount", "FilesConsidered", "FilesLoaded", "FilesSkipped", "MatchCount", "NgramMatches", "NgramLookups",
	"ShardFilesConsidered", "ShardsScanned", "ShardsSkipped", "ShardsSkippedFilter", "Wait", "MatchTreeConstruction", "MatchTreeSearch", "RegexpsConsidered"}

func genStats(tp *simrt.Tape) zoekt.Stats {
	var s zoekt.Stats
	v := func() int { return []int{0, 0, 0, 1, 3, 1000}[tp.Gen(6)] }
	switch tp.Gen(4) {
	case 0: // all zero
		return s
	case 1: // a single counter, possibly one that the "is zero" test could overlook
		switch tp.Gen(8) {
		case 0:
			s.ShardsSkippedFilter = 1
		case 1:
			s.RegexpsConsidered = 2
		case 2:
			s.MatchTreeSearch = time.Millisecond
		case 3:
			s.Wait = time.Microsecond
		case 4:
			s.ShardsScanned = 1
		case 5:
			s.Crashes = 1
		case 6:
			s.FilesSkipped = 1
		default:
			s.NgramLookups = 5
		}
		return s
	}
	s.ContentBytesLoaded, s.IndexBytesLoaded = int64(v()), int64(v())
	s.Crashes, s.FileCount, s.FilesConsidered, s.FilesLoaded, s.FilesSkipped = v(), v(), v(), v(), v()
	s.MatchCount, s.NgramMatches, s.NgramLookups, s.ShardFilesConsidered = v(), v(), v(), v()
	s.ShardsScanned, s.ShardsSkipped, s.ShardsSkippedFilter, s.RegexpsConsidered = v(), v(), v(), v()
	s.Wait, s.MatchTreeConstruction, s.MatchTreeSearch = time.Duration(v()), time.Duration(v()), time.Duration(v())
	return s
}

func runC25(t *testing.T, tp *simrt.Tape, keepTrace bool) hx.Result {
	cfg := simrt.Config{MaxSteps: 200000, KeepTrace: keepTrace}
	nEvents := []int{0, 1, 3, 10, 40, 120, 250}[tp.Gen(7)]
	if nEvents > 3 {
		nEvents = nEvents/2 + tp.Gen(nEvents/2+1)
	}
	fileSeq := 0
	big := func(n int) []byte { return []byte(strings.Repeat("x", n)) }
	var events []*zoekt.SearchResult
	var produced []string
	var producedStats zoekt.Stats
	bigBudget := 3 // keep memory bounded
	for i := 0; i < nEvents; i++ {
		e := &zoekt.SearchResult{Stats: genStats(tp)}
		e.Progress = zoekt.Progress{Priority: float64(tp.Gen(3)), MaxPendingPriority: float64(tp.Gen(3))}
		nFiles := 0
		switch tp.Gen(5) {
		case 0, 1: // stats only (runs of these exercise the sampler)
		case 2:
			nFiles = 1
		case 3:
			nFiles = tp.GenRange(2, 6)
		default:
			nFiles = tp.GenRange(1, 3)
		}
		for f := 0; f < nFiles; f++ {
			fileSeq++
			fm := zoekt.FileMatch{FileName: fmt.Sprintf("file%04d.go", fileSeq), Repository: fmt.Sprintf("repo%d", tp.Gen(3)), Score: float64(tp.Gen(100))}
			switch tp.Gen(12) {
			case 0:
				if bigBudget > 0 {
					bigBudget--
					fm.Content = big(1<<20 + 100) // a single file above the 1 MiB budget
				}
			case 1, 2:
				fm.Content = big(300 << 10) // several of these overflow one message
			case 3:
				fm.Content = big(600 << 10)
			default:
				fm.LineMatches = []zoekt.LineMatch{{Line: []byte("needle " + fm.FileName), LineNumber: 1, LineFragments: []zoekt.LineFragmentMatch{{MatchLength: 6}}}}
			}
			e.Files = append(e.Files, fm)
			produced = append(produced, fm.FileName)
		}
		events = append(events, e)
		producedStats.Add(e.Stats)
	}
	srcFails := tp.Gen(8) == 0
	stream := &simStream{failFrom: -1, slow: tp.Gen(4) == 0}
	mode := "no-fault"
	if tp.FaultChance(1, 4) {
		stream.failFrom = tp.Fault(nEvents + 2)
		mode = "transport-fault"
	}
	var rerr error
	var panicked string
	s, res := hx.Sim(t, tp, cfg, func() {
		defer func() {
			if r := recover(); r != nil {
				panicked = fmt.Sprint(r)
			}
		}()
		ctx, cancel := context.WithCancel(context.Background())
		defer cancel()
		stream.ctx = ctx
		src := &stubStreamer{events: events}
		if srcFails {
			src.err = errors.New("shard failure")
		}
		srv := NewServer(src)
		req := &webserverv1.StreamSearchRequest{Request: &webserverv1.SearchRequest{Query: query.QToProto(&query.Const{Value: true}), Opts: (&zoekt.SearchOptions{}).ToProto()}}
		rerr = srv.StreamSearch(req, stream)
	})
	var viol *hx.Violation
	if s != nil && res.HarnessErr == "" {
		if s.Deadlocked() {
			viol = &hx.Violation{Sig: "deadlock|liveness", Detail: strings.Join(s.BlockedSites(), " ")}
		} else if s.OverBudget() {
			res.HarnessErr = "step budget exceeded"
		}
	}
	if viol == nil && panicked != "" {
		viol = &hx.Violation{Sig: "panic|" + mode, Detail: panicked}
	}
	desc := func() string {
		var b strings.Builder
		fmt.Fprintf(&b, "%d events [", len(events))
		for i, e := range events {
			if i > 30 {
				b.WriteString("...")
				break
			}
			sz := 0
			for _, f := range e.Files {
				sz += len(f.Content)
			}
			fmt.Fprintf(&b, "{files:%d bytes:%d zeroStats:%t} ", len(e.Files), sz, e.Stats.Zero())
		}
		fmt.Fprintf(&b, "] failFrom=%d srcFails=%t -> %d messages, err=%v", stream.failFrom, srcFails, len(stream.msgs), rerr)
		return b.String()
	}
	if viol == nil && res.HarnessErr == "" {
		var delivered []string
		var deliveredStats zoekt.Stats
		for mi, m := range stream.msgs {
			c := m.GetResponseChunk()
			filesSize := 0
			for _, f := range c.GetFiles() {
				delivered = append(delivered, string(f.GetFileName()))
				filesSize += proto.Size(f)
			}
			if len(c.GetFiles()) > 1 && filesSize >= 1<<20 {
				viol = &hx.Violation{Sig: "message-over-size-budget|" + mode, Detail: fmt.Sprintf("message %d carries %d files with %d bytes of encoded file matches (budget 1 MiB); %s", mi, len(c.GetFiles()), filesSize, desc())}
				break
			}
			if len(c.GetFiles()) > 1 && proto.Size(m) >= 4<<20 {
				viol = &hx.Violation{Sig: "message-over-grpc-limit|" + mode, Detail: fmt.Sprintf("message %d is %d bytes; %s", mi, proto.Size(m), desc())}
				break
			}
			if c.GetStats() != nil {
				deliveredStats.Add(zoekt.StatsFromProto(c.GetStats()))
			}
		}
		if viol == nil {
			// order, exactly once / prefix
			n := len(delivered)
			if n > len(produced) {
				viol = &hx.Violation{Sig: "more-files-delivered-than-produced|" + mode, Detail: fmt.Sprintf("%d delivered, %d produced; %s", n, len(produced), desc())}
			} else {
				for i := 0; i < n; i++ {
					if delivered[i] != produced[i] {
						viol = &hx.Violation{Sig: "files-out-of-order-or-duplicated|" + mode, Detail: fmt.Sprintf("delivered[%d]=%s, produced[%d]=%s; %s", i, delivered[i], i, produced[i], desc())}
						break
					}
				}
			}
		}
		if viol == nil && mode == "no-fault" {
			if len(delivered) != len(produced) {
				viol = &hx.Violation{Sig: "files-lost|" + mode, Detail: fmt.Sprintf("%d of %d produced files delivered; %s", len(delivered), len(produced), desc())}
			}
			if viol == nil && !srcFails {
				if rerr != nil {
					viol = &hx.Violation{Sig: "unexpected-error|" + mode, Detail: rerr.Error()}
				}
				got, want := counters(deliveredStats), counters(producedStats)
				for i := range got {
					if got[i] != want[i] && viol == nil {
						viol = &hx.Violation{Sig: "statistics-not-conserved|" + mode, Detail: fmt.Sprintf("counter %s: delivered sum %d, produced sum %d; %s", counterNames[i], got[i], want[i], desc())}
					}
				}
			}
			if viol == nil && srcFails {
				// every delivered counter is bounded by what was produced
				got, want := counters(deliveredStats), counters(producedStats)
				for i := range got {
					if got[i] > want[i] && viol == nil {
						viol = &hx.Violation{Sig: "statistics-inflated|" + mode, Detail: fmt.Sprintf("counter %s: delivered sum %d > produced sum %d; %s", counterNames[i], got[i], want[i], desc())}
					}
				}
			}
		}
		if viol == nil && mode == "transport-fault" {
			got, want := counters(deliveredStats), counters(producedStats)
			for i := range got {
				if got[i] > want[i] && viol == nil {
					viol = &hx.Violation{Sig: "statistics-inflated|" + mode, Detail: fmt.Sprintf("counter %s: delivered sum %d > produced sum %d; %s", counterNames[i], got[i], want[i], desc())}
				}
			}
		}
	}
	res.Violation = viol
	res.Faults = map[string]int{"send-error": stream.sendErrs}
	res.Offered = map[string]int{"send": len(stream.msgs) + stream.sendErrs}
	res.Nontrivial = len(produced) >= 2 && len(stream.msgs) >= 2
	// sequential harness: identify the case by its content
	res.Hash = res.Hash ^ uint64(len(produced))<<32 ^ uint64(len(stream.msgs))<<16 ^ uint64(stream.failFrom+2)
	res.Sample = map[string]any{"scenario": desc(), "mode": mode}
	return res
}
