package main

import (
	"fmt"
	"os"
	"syscall"
	"path/filepath"
	"sort"
	"strings"
	"testing"

	"github.com/sourcegraph/zoekt"
	"github.com/sourcegraph/zoekt/index"
	"github.com/sourcegraph/zoekt/internal/verifsim/hx"
	"github.com/sourcegraph/zoekt/internal/verifsim/simos"
	"github.com/sourcegraph/zoekt/internal/verifsim/simrt"
)

// C35: shard merging reports success only when it merged, and never duplicates.
//
// One run = a set of 2-4 simple shards. merge() and then index.Explode() are
// each executed fault free (recorded) and then once per file-system operation
// as failing operation and (mutating ones) as kill point.

func init() { hx.Register("C35", "C35", runC35) }

var c35Scratch string

func c35Dir() string {
	if c35Scratch == "" {
		d, err := os.MkdirTemp("/dev/shm", "verif-m-")
		if err != nil {
			d, _ = os.MkdirTemp("", "verif-m-")
		}
		c35Scratch = d
	}
	return c35Scratch
}

func c35Copy(src, dst string) {
	os.MkdirAll(dst, 0o755)
	es, _ := os.ReadDir(src)
	for _, e := range es {
		b, err := os.ReadFile(filepath.Join(src, e.Name()))
		if err != nil {
			panic(err)
		}
		os.WriteFile(filepath.Join(dst, e.Name()), b, 0o644)
	}
}

func c35Ls(dir string) []string {
	var out []string
	es, _ := os.ReadDir(dir)
	for _, e := range es {
		out = append(out, e.Name())
	}
	sort.Strings(out)
	return out
}

var c35Mu = make(chan struct{}, 1)

func c35WithProc(p *simrt.Proc, f func()) (completed bool) {
	c35Mu <- struct{}{}
	defer func() { <-c35Mu }()
	simos.SetSeqProc(p)
	defer simos.SetSeqProc(nil)
	done := make(chan struct{})
	go func() {
		defer close(done)
		f()
		completed = true
	}()
	<-done
	return
}

// c35State: repository id -> loadable *.zoekt files in which it is alive.
type c35State struct {
	where      map[uint32][]string
	unloadable []string
}

func c35Observe(dir string) c35State {
	st := c35State{where: map[uint32][]string{}}
	fs, _ := filepath.Glob(filepath.Join(dir, "*.zoekt"))
	sort.Strings(fs)
	for _, fn := range fs {
		repos, _, err := index.ReadMetadataPathAlive(fn)
		if err != nil {
			st.unloadable = append(st.unloadable, filepath.Base(fn)+": "+err.Error())
			continue
		}
		for _, r := range repos {
			st.where[r.ID] = append(st.where[r.ID], filepath.Base(fn))
		}
	}
	return st
}

func (s c35State) String() string {
	var ids []int
	for id := range s.where {
		ids = append(ids, int(id))
	}
	sort.Ints(ids)
	var b strings.Builder
	for _, id := range ids {
		fmt.Fprintf(&b, "%d:%v ", id, s.where[uint32(id)])
	}
	if len(s.unloadable) > 0 {
		fmt.Fprintf(&b, "unloadable:%v", s.unloadable)
	}
	return b.String()
}

func (s c35State) duplicates() []string {
	var out []string
	for id, w := range s.where {
		if len(w) > 1 {
			out = append(out, fmt.Sprintf("repository %d alive in %v", id, w))
		}
	}
	sort.Strings(out)
	return out
}

func relOps35(ops []simos.Op, dir string) []string {
	var out []string
	for _, o := range ops {
		m := ""
		if !o.Mut {
			m = "(r)"
		}
		out = append(out, fmt.Sprintf("%d:%s%s %s", o.K, o.Name, m, strings.ReplaceAll(o.Path, dir+"/", "")))
	}
	return out
}

func runC35(t *testing.T, tp *simrt.Tape, keepTrace bool) hx.Result {
	base, err := os.MkdirTemp(c35Dir(), "c35-")
	if err != nil {
		return hx.Result{HarnessErr: err.Error()}
	}
	defer os.RemoveAll(base)
	var res hx.Result
	res.Faults, res.Offered = map[string]int{}, map[string]int{}
	seen := map[string]bool{}
	report := func(sig, detail string) {
		if !seen[sig] {
			seen[sig] = true
			res.Violations = append(res.Violations, hx.Violation{Sig: sig, Detail: detail})
		}
	}
	nIn := tp.GenRange(2, 4)
	start := filepath.Join(base, "start")
	os.MkdirAll(start, 0o755)
	var ids []uint32
	var inputs []string
	withSidecar := map[int]bool{}
	for i := 0; i < nIn; i++ {
		id := uint32(20 + i)
		ids = append(ids, id)
		o := index.Options{IndexDir: start, ShardMax: 1 << 20, Parallelism: 1, DisableCTags: true, SizeMax: 1 << 20, TrigramMax: 20000,
			RepositoryDescription: zoekt.Repository{ID: id, Name: fmt.Sprintf("in%d", i), Branches: []zoekt.RepositoryBranch{{Name: "HEAD", Version: "v1"}}}}
		b, err := index.NewBuilder(o)
		if err != nil {
			return hx.Result{HarnessErr: err.Error()}
		}
		nd := tp.GenRange(1, 3)
		for d := 0; d < nd; d++ {
			b.AddFile(fmt.Sprintf("f%d.txt", d), []byte(fmt.Sprintf("content of in%d file %d\n", i, d)))
		}
		if err := b.Finish(); err != nil {
			return hx.Result{HarnessErr: err.Error()}
		}
		shards := o.FindAllShards()
		if len(shards) != 1 {
			return hx.Result{HarnessErr: fmt.Sprintf("expected 1 shard, got %v", shards)}
		}
		inputs = append(inputs, filepath.Base(shards[0]))
		if tp.Gen(3) == 0 {
			// a metadata sidecar next to the input shard (written by an earlier metadata update)
			repos, _, err := index.ReadMetadataPath(shards[0])
			if err == nil && len(repos) == 1 {
				tmpP, finalP, err := index.JsonMarshalRepoMetaTemp(shards[0], repos[0]) // simple shards hold one object
				if err == nil {
					os.Rename(tmpP, finalP)
					withSidecar[i] = true
				}
			}
		}
	}
	desc := fmt.Sprintf("inputs=%v sidecars=%v", inputs, withSidecar)
	full := func(dir string) []string {
		var out []string
		for _, in := range inputs {
			out = append(out, filepath.Join(dir, in))
		}
		return out
	}
	type phaseFn func(dir string) (string, error)
	enumerate := func(phase string, startDir string, run phaseFn, successOK func(st c35State, dir string, out string) string) (string, bool) {
		ref := filepath.Join(base, phase+"-ref")
		c35Copy(startDir, ref)
		p0 := simos.NewProc(phase, simos.Plan{})
		var out string
		var e error
		c35WithProc(p0, func() { out, e = run(ref) })
		ops := simos.StateOf(p0).Log
		res.Evals++
		where := func() string { return desc + " ops=" + strings.Join(relOps35(ops, ref), "; ") }
		st0 := c35Observe(ref)
		if e != nil {
			report("fault-free-"+phase+"-fails", e.Error()+"; "+where())
			return ref, false
		}
		if p := successOK(st0, ref, out); p != "" {
			report("fault-free-"+phase+"-wrong-result", p+"; state "+st0.String()+"; "+where())
			return ref, false
		}
		n := 0
		for _, op := range ops {
			type variant struct {
				label string
				plan  simos.Plan
			}
			vs := []variant{{"fail", simos.Plan{FailAt: op.K}}}
			if op.Name == "write" || op.Name == "createtemp" {
				// the disk fills up: this and every later create/write fails with ENOSPC
				vs = append(vs, variant{"disk-full", simos.Plan{FailFrom: op.K, FailKinds: simos.DiskFull, FailErr: syscall.ENOSPC}})
			}
			if op.Mut {
				vs = append(vs, variant{"kill-before", simos.Plan{CrashAt: op.K}})
				if op.Name == "write" && op.Size > 1 {
					vs = append(vs, variant{"kill-inside", simos.Plan{CrashAt: op.K, CrashInWrite: true}})
				}
			}
			for _, v := range vs {
				n++
				d := filepath.Join(base, fmt.Sprintf("%s-x%d", phase, n))
				c35Copy(startDir, d)
				p := simos.NewProc(phase, v.plan)
				var o2 string
				var e2 error
				completed := c35WithProc(p, func() { o2, e2 = run(d) })
				for k, c := range simos.StateOf(p).Fired {
					res.Faults[k] += c
				}
				res.Offered[v.label+"-"+op.Name]++
				st := c35Observe(d)
				res.Evals++
				flabel := v.label
				if v.label == "fail" {
					flabel = "fail-" + op.Name
				}
				res.Distinct = append(res.Distinct, hx64(desc, phase, flabel, fmt.Sprint(op.K), st.String()))
				detail := func() string {
					return fmt.Sprintf("%s: %s op %d (%s %s): completed=%t result=%q err=%v -> %s files %v; %s", phase, v.label, op.K, op.Name, filepath.Base(op.Path), completed, o2, e2, st.String(), c35Ls(d), where())
				}
				if dups := st.duplicates(); len(dups) > 0 {
					report("repository-visible-in-two-shards|"+phase+"|"+flabel, strings.Join(dups, "; ")+"; "+detail())
				}
				if completed && e2 == nil {
					if p := successOK(st, d, o2); p != "" {
						report("success-reported-but-not-done|"+phase+"|"+flabel, p+"; "+detail())
					}
				}
				os.RemoveAll(d)
			}
		}
		return ref, true
	}
	mergedDir, ok := enumerate("merge", start, func(dir string) (string, error) {
		return merge(dir, full(dir))
	}, func(st c35State, dir string, out string) string {
		if out == "" {
			return "merge returned no compound shard path and no error"
		}
		for _, id := range ids {
			w := st.where[id]
			if len(w) != 1 || !strings.HasPrefix(w[0], "compound-") {
				return fmt.Sprintf("repository %d is in %v, expected exactly the compound shard", id, w)
			}
		}
		for _, in := range inputs {
			if _, err := os.Stat(filepath.Join(dir, in)); err == nil {
				return "input shard " + in + " still exists"
			}
		}
		if _, err := os.Stat(out); err != nil {
			return "reported compound shard " + out + " does not exist"
		}
		return ""
	})
	if ok {
		comp, _ := filepath.Glob(filepath.Join(mergedDir, "compound-*.zoekt"))
		if len(comp) == 1 {
			compName := filepath.Base(comp[0])
			enumerate("explode", mergedDir, func(dir string) (string, error) {
				return "", index.Explode(dir, filepath.Join(dir, compName))
			}, func(st c35State, dir string, out string) string {
				for _, id := range ids {
					w := st.where[id]
					if len(w) != 1 || strings.HasPrefix(w[0], "compound-") {
						return fmt.Sprintf("repository %d is in %v, expected exactly its own simple shard", id, w)
					}
				}
				if _, err := os.Stat(filepath.Join(dir, compName)); err == nil {
					return "compound shard still exists"
				}
				return ""
			})
		}
	}
	// The state vacuum works on: one member of the compound shard is tombstoned
	// (sidecar) and has since been indexed into a simple shard of its own. Re-merging
	// the compound shard (drops the tombstoned data) and exploding it are enumerated
	// too: the sidecar is what keeps the repository from being visible twice.
	if ok && tp.Gen(2) == 0 {
		comp, _ := filepath.Glob(filepath.Join(mergedDir, "compound-*.zoekt"))
		if len(comp) == 1 {
			vac := filepath.Join(base, "vacuum-start")
			c35Copy(mergedDir, vac)
			compName := filepath.Base(comp[0])
			tomb := tp.Gen(len(ids))
			if err := index.SetTombstone(filepath.Join(vac, compName), ids[tomb]); err != nil {
				return hx.Result{HarnessErr: "set tombstone: " + err.Error()}
			}
			for _, f := range c35Ls(start) {
				if strings.HasPrefix(f, inputs[tomb]) {
					b, _ := os.ReadFile(filepath.Join(start, f))
					os.WriteFile(filepath.Join(vac, f), b, 0o644)
				}
			}
			if d := c35Observe(vac).duplicates(); len(d) > 0 {
				return hx.Result{HarnessErr: fmt.Sprintf("vacuum start state has duplicates: %v", d)}
			}
			desc += fmt.Sprintf(" vacuum: %s tombstoned in %s and re-indexed", inputs[tomb], compName)
			okState := func(st c35State, dir string, wantCompound bool) string {
				for i, id := range ids {
					w := st.where[id]
					if len(w) != 1 {
						return fmt.Sprintf("repository %d is in %v, expected exactly one shard", id, w)
					}
					if i == tomb && strings.HasPrefix(w[0], "compound-") {
						return fmt.Sprintf("the tombstoned repository %d is alive in %v", id, w)
					}
					if i != tomb && wantCompound != strings.HasPrefix(w[0], "compound-") {
						return fmt.Sprintf("repository %d is in %v", id, w)
					}
				}
				return ""
			}
			enumerate("remerge", vac, func(dir string) (string, error) {
				return merge(dir, []string{filepath.Join(dir, compName)})
			}, func(st c35State, dir string, out string) string {
				if out == "" {
					return "merge returned no compound shard path and no error"
				}
				return okState(st, dir, len(ids) > 1)
			})
			enumerate("explode-tombstoned", vac, func(dir string) (string, error) {
				return "", index.Explode(dir, filepath.Join(dir, compName))
			}, func(st c35State, dir string, out string) string {
				if _, err := os.Stat(filepath.Join(dir, compName)); err == nil {
					return "compound shard still exists"
				}
				return okState(st, dir, false)
			})
		}
	}
	res.Sample = map[string]any{"scenario": desc, "executions": res.Evals}
	res.Nontrivial = res.Evals > 2
	res.Hash = hx64(desc)
	return res
}

func hx64(ss ...string) uint64 {
	h := uint64(0xcbf29ce484222325)
	for _, s := range ss {
		for i := 0; i < len(s); i++ {
			h ^= uint64(s[i])
			h *= 0x100000001b3
		}
		h ^= 0xfe
		h *= 0x100000001b3
	}
	return h
}
