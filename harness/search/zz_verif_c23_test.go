package search

import (
	"context"
	"fmt"
	"sort"
	"strings"
	"sync"
	"testing"

	"github.com/sourcegraph/zoekt"
	"github.com/sourcegraph/zoekt/internal/tenant/systemtenant"
	"github.com/sourcegraph/zoekt/internal/tenant/tenanttest"
	"github.com/sourcegraph/zoekt/internal/verifsim/hx"
	"github.com/sourcegraph/zoekt/internal/verifsim/simrt"
)

// C23: tenants never see another tenant's repositories. Claim: the isolation
// invariant on every response under concurrent mixed-tenant traffic over
// compound shards mixing tenants; the query input space is sampled.

func init() { hx.Register("C23", "C23", runC23) }

var c23Once sync.Once
var c23Ctx [4]context.Context // tenant 1, tenant 2, no tenant, system

func c23Setup(t *testing.T) {
	c23Once.Do(func() {
		tenanttest.MockEnforce(t)
		tenanttest.ResetTestTenants()
		c23Ctx[0] = tenanttest.NewTestContext()
		c23Ctx[1] = tenanttest.NewTestContext()
		c23Ctx[2] = context.Background()
		c23Ctx[3] = systemtenant.WithUnsafeContext(context.Background())
	})
}

func runC23(t *testing.T, tp *simrt.Tape, keepTrace bool) hx.Result {
	c23Setup(t)
	cfg := simrt.DrawConfig(tp)
	cfg.KeepTrace = keepTrace
	cfg.MaxProcs = []int{1, 2, 4, 16}[tp.Gen(4)]
	cfg.MaxSteps = 80000
	cid := tp.Gen(nCorpora)
	if tp.Gen(3) == 0 {
		cid += 100 // two tenants own a repository of the same name
	}
	corpus := getCorpus(cid)
	dupNames := cid >= 100
	ownerID := map[uint32]int{}
	for _, r := range corpus.Repos {
		ownerID[r.Repo.ID] = r.Repo.TenantID
	}
	run := &sRun{Corpus: corpus, Width: cfg.MaxProcs, Cap: int64(tp.GenRange(1, 4))}
	nClients := tp.GenRange(1, 4)
	type who struct{ ctxIdx int }
	var whos [][]who
	for ci := 0; ci < nClients; ci++ {
		var prog []*sCall
		var ws []who
		n := tp.GenRange(1, 3)
		for k := 0; k < n; k++ {
			c := &sCall{Kind: []string{"search", "stream", "list", "search"}[tp.Gen(4)]}
			c.Q = genQuery(tp, corpus, true)
			c.Opts = genBaseOpts(tp)
			if tp.Gen(3) == 0 {
				// match limits change how the evaluator walks the documents of a shard
				c.Opts.ShardRepoMaxMatchCount = []int{0, 1, 2, 5}[tp.Gen(4)]
				c.Opts.ShardMaxMatchCount = []int{0, 1, 3, 1000}[tp.Gen(4)]
				c.Opts.TotalMaxMatchCount = []int{0, 2, 1000}[tp.Gen(3)]
			}
			if c.Kind == "list" {
				switch tp.Gen(3) {
				case 1:
					c.LOpt = &zoekt.ListOptions{Field: zoekt.RepoListFieldRepos}
				case 2:
					c.LOpt = &zoekt.ListOptions{Field: zoekt.RepoListFieldReposMap}
				}
			}
			prog = append(prog, c)
			ws = append(ws, who{[]int{0, 1, 0, 1, 2, 3}[tp.Gen(6)]})
		}
		run.Clients = append(run.Clients, prog)
		whos = append(whos, ws)
	}
	var viol *hx.Violation
	finished := false
	s, res := hx.Sim(t, tp, cfg, func() {
		var ss zoekt.Streamer = &typeRepoSearcher{Streamer: newLoadedSharded(corpus, run.Cap)}
		done := make(chan int, nClients)
		for ci := range run.Clients {
			ci := ci
			simrt.GoNamed(fmt.Sprintf("client%d", ci), func() {
				defer func() { simrt.Send(done, "c23done")(ci) }()
				for k, c := range run.Clients[ci] {
					runCallCtx(ss, c, c23Ctx[whos[ci][k].ctxIdx])
				}
			})
		}
		for range run.Clients {
			simrt.Recv(done, "c23main")
		}
		ss.Close()
		finished = true
	})
	finishSim(s, &res, finished, &viol)
	evals := 0
	nonEmpty := false
	names := []string{"tenant1", "tenant2", "no-tenant", "system"}
	if viol == nil && res.HarnessErr == "" && finished {
	outer:
		for ci, prog := range run.Clients {
			for k, c := range prog {
				w := whos[ci][k].ctxIdx
				where := fmt.Sprintf("client%d call %d as %s: %s", ci, k, names[w], c)
				if c.Panic != "" {
					viol = &hx.Violation{Sig: "panic|" + c.Kind, Detail: where + ": " + c.Panic}
					break outer
				}
				if c.Err != nil {
					// queries a single shard cannot evaluate fail for every tenant alike
					continue
				}
				evals++
				allowedID := func(id uint32) bool {
					switch w {
					case 0:
						return ownerID[id] == 1
					case 1:
						return ownerID[id] == 2
					case 2:
						return false
					}
					return true
				}
				// URL templates of the corpora name their tenant ("http://t1.example/...", "#t2r1L...")
				allowedURL := func(u string) bool {
					switch w {
					case 0:
						return !strings.Contains(u, "t2.example") && !strings.HasPrefix(u, "#t2")
					case 1:
						return !strings.Contains(u, "t1.example") && !strings.HasPrefix(u, "#t1")
					case 2:
						return false
					}
					return true
				}
				limited := c.Opts.ShardRepoMaxMatchCount+c.Opts.ShardMaxMatchCount+c.Opts.TotalMaxMatchCount > 0
				var leaks []string
				if c.Kind == "list" {
					for _, e := range c.List.Repos {
						if !allowedID(e.Repository.ID) {
							leaks = append(leaks, fmt.Sprintf("list entry %s (id %d)", e.Repository.Name, e.Repository.ID))
						}
					}
					for id := range c.List.ReposMap {
						if !allowedID(id) {
							leaks = append(leaks, fmt.Sprintf("ReposMap id %d", id))
						}
					}
					if len(leaks) > 0 {
						sort.Strings(leaks)
						viol = &hx.Violation{Sig: "foreign-repository-in-listing|list", Detail: where + ": " + strings.Join(leaks, ", ")}
						break outer
					}
					if len(c.List.Repos)+len(c.List.ReposMap) > 0 {
						nonEmpty = true
					}
					continue
				}
				results := c.Events
				if c.Kind == "search" {
					results = []*zoekt.SearchResult{c.Res}
				}
				fileLeak, urlLeak, fragLeak := []string{}, []string{}, []string{}
				for _, r := range results {
					if r == nil {
						continue
					}
					for i := range r.Files {
						if !allowedID(r.Files[i].RepositoryID) {
							fileLeak = append(fileLeak, fmt.Sprintf("%s(id %d)/%s", r.Files[i].Repository, r.Files[i].RepositoryID, r.Files[i].FileName))
						}
					}
					for name, u := range r.RepoURLs {
						if !allowedURL(u) {
							urlLeak = append(urlLeak, name+"="+u)
						}
					}
					for name, u := range r.LineFragments {
						if !allowedURL(u) {
							fragLeak = append(fragLeak, name+"="+u)
						}
					}
					if len(r.Files) > 0 {
						nonEmpty = true
					}
				}
				sort.Strings(fileLeak)
				sort.Strings(urlLeak)
				sort.Strings(fragLeak)
				if len(fileLeak) > 0 {
					viol = &hx.Violation{Sig: "foreign-file-match|" + c.Kind, Detail: where + ": " + strings.Join(fileLeak, ", ")}
					break outer
				}
				if len(urlLeak) > 0 {
					viol = &hx.Violation{Sig: "foreign-repo-name-and-url-template-in-RepoURLs|" + c.Kind, Detail: where + ": " + strings.Join(urlLeak, ", ")}
					break outer
				}
				if len(fragLeak) > 0 {
					viol = &hx.Violation{Sig: "foreign-repo-name-in-LineFragments|" + c.Kind, Detail: where + ": " + strings.Join(fragLeak, ", ")}
					break outer
				}
				// completeness for the tenant's own repositories (and for the system context)
				rq, err := refTypeRepo(corpus.Shards, c.Q)
				if err != nil {
					continue
				}
				want, _, err := refUnion(corpus.Shards, rq, &c.Opts)
				if err != nil {
					continue
				}
				var own []zoekt.FileMatch
				for i := range want {
					if allowedID(want[i].RepositoryID) {
						own = append(own, want[i])
					}
				}
				got := c.files()
				if limited || dupNames {
					// under match limits a subset is returned; with same-named repositories the
					// name-based reference for repository atoms is ambiguous: only isolation is judged
					continue
				}
				if w == 3 || !hasTypeRepo(c.Q) {
					if d := diffSets(normFiles(got, false), normFiles(own, false)); d != "" {
						viol = &hx.Violation{Sig: "own-results-differ|" + c.Kind, Detail: where + ": " + d}
						break outer
					}
				}
			}
		}
	}
	res.Violation = viol
	res.Nontrivial = res.Switches >= 2 && evals > 0 && nonEmpty
	d := run.describe()
	d["steps"], d["switches"], d["policy"] = res.Steps, res.Switches, cfg.Policy
	var ws []string
	for ci := range whos {
		for k := range whos[ci] {
			ws = append(ws, fmt.Sprintf("client%d/%d=%s", ci, k, names[whos[ci][k].ctxIdx]))
		}
	}
	d["contexts"] = ws
	res.Sample = d
	return res
}
