package search

import (
	"context"
	"fmt"
	"math/rand/v2"
	"os"
	"path/filepath"
	"runtime"
	"sort"
	"strings"
	"testing"
	"time"

	"github.com/sourcegraph/zoekt"
	"github.com/sourcegraph/zoekt/internal/verifsim/hx"
	"github.com/sourcegraph/zoekt/internal/verifsim/simrt"
	"github.com/sourcegraph/zoekt/query"
)

// C11: corrupt shard files never crash the searcher.
//
// Every case builds a directory of healthy shards plus corrupted copies of
// other repositories' shards, loads it with the real directory searcher (real
// mmap, real loader goroutines) and runs searches and listings. A worker
// process that dies (unrecovered panic on a loader goroutine, fatal out of
// memory under ulimit -v, SIGSEGV/SIGBUS) is found by the orchestrator, which
// re-runs the single case in a fresh process and reports a reproducible death
// as the violation. A case that does not finish within the watchdog is a hang.

func init() { hx.Register("C11", "C11", runC11) }

type corruption struct {
	Kind string
	Pos  int
	Len  int
	Bit  int
}

func (c corruption) String() string { return fmt.Sprintf("%s@%d+%d/%d", c.Kind, c.Pos, c.Len, c.Bit) }

func pickPos(tp *simrt.Tape, n int) int {
	if n <= 1 {
		return 0
	}
	switch tp.Fault(6) {
	case 0: // header/first bytes
		return tp.Fault(min(64, n))
	case 1, 2: // table of contents and section tables live at the end
		return n - 1 - tp.Fault(min(512, n))
	case 3: // last 4 KiB
		return n - 1 - tp.Fault(min(4096, n))
	default:
		return tp.Fault(n)
	}
}

func corruptBytes(tp *simrt.Tape, data []byte) ([]byte, corruption) {
	out := append([]byte(nil), data...)
	n := len(out)
	c := corruption{}
	switch tp.Fault(10) {
	case 8, 9:
		// a (delta) varint replaced by a huge one: offsets/postings close to 2^32
		c.Kind = "varint-huge"
		c.Pos = pickPos(tp, n)
		enc := [][]byte{{0xff, 0xff, 0xff, 0xff, 0x0f}, {0xf0, 0xff, 0xff, 0xff, 0x0f}, {0xff, 0xff, 0xff, 0xff, 0xff, 0xff, 0xff, 0xff, 0xff, 0x01}, {0x80, 0x80, 0x80, 0x80, 0x08}}[tp.Fault(4)]
		c.Len = len(enc)
		for i, b := range enc {
			if c.Pos+i < n {
				out[c.Pos+i] = b
			}
		}
	case 0:
		c.Kind = "truncate"
		c.Pos = pickPos(tp, n)
		out = out[:c.Pos]
	case 1, 2:
		c.Kind = "bitflip"
		c.Pos = pickPos(tp, n)
		c.Bit = tp.Fault(8)
		out[c.Pos] ^= 1 << c.Bit
	case 3:
		c.Kind = "zero-page"
		c.Pos = pickPos(tp, n) &^ 4095
		c.Len = 4096
		for i := c.Pos; i < c.Pos+c.Len && i < n; i++ {
			out[i] = 0
		}
	case 4:
		c.Kind = "garbage-block"
		c.Pos = pickPos(tp, n)
		c.Len = 1 + tp.Fault(64)
		rng := rand.New(rand.NewPCG(uint64(c.Pos), uint64(c.Len)))
		for i := c.Pos; i < c.Pos+c.Len && i < n; i++ {
			out[i] = byte(rng.IntN(256))
		}
	case 5:
		c.Kind = "u32-scale" // a stored size/offset field multiplied or shifted
		c.Pos = pickPos(tp, n) &^ 3
		if c.Pos+4 <= n {
			v := uint32(out[c.Pos])<<24 | uint32(out[c.Pos+1])<<16 | uint32(out[c.Pos+2])<<8 | uint32(out[c.Pos+3])
			switch tp.Fault(4) {
			case 0:
				v++
			case 1:
				v--
			case 2:
				v <<= uint(1 + tp.Fault(16))
			default:
				v = 0xfffffff0
			}
			out[c.Pos], out[c.Pos+1], out[c.Pos+2], out[c.Pos+3] = byte(v>>24), byte(v>>16), byte(v>>8), byte(v)
		}
	case 6:
		c.Kind = "byte-set"
		c.Pos = pickPos(tp, n)
		out[c.Pos] = []byte{0x00, 0x7f, 0x80, 0xff}[tp.Fault(4)]
	default:
		c.Kind = "swap-halves"
		h := n / 2
		out = append(append([]byte(nil), data[h:]...), data[:h]...)
	}
	return out, c
}

func runC11(t *testing.T, tp *simrt.Tape, keepTrace bool) hx.Result {
	// the searcher sizes its worker pools by GOMAXPROCS: with one worker a single
	// crashing shard meets every "worker gave up" path
	defer runtime.GOMAXPROCS(runtime.GOMAXPROCS(1 + tp.Gen(2)))
	corpus := getCorpus(tp.Gen(nCorpora))
	dir, err := os.MkdirTemp(sScratch(), "c11-")
	if err != nil {
		return hx.Result{HarnessErr: err.Error()}
	}
	defer os.RemoveAll(dir)
	// choose healthy and corrupted shards (disjoint repositories)
	nCorrupt := 1 + tp.Gen(2)
	order := make([]int, len(corpus.Shards))
	for i := range order {
		order[i] = i
	}
	for i := 0; i < len(order)-1; i++ {
		j := i + tp.Gen(len(order)-i)
		order[i], order[j] = order[j], order[i]
	}
	if nCorrupt >= len(order) {
		nCorrupt = len(order) - 1
	}
	var healthy []*sImage
	var descr []string
	corruptRepos := map[string]bool{}
	for k, idx := range order {
		im := corpus.Shards[idx]
		if k < nCorrupt {
			data, c := corruptBytes(tp, im.Data)
			if err := os.WriteFile(filepath.Join(dir, im.Key), data, 0o644); err != nil {
				return hx.Result{HarnessErr: err.Error()}
			}
			for _, r := range im.Repos {
				corruptRepos[r] = true
			}
			descr = append(descr, fmt.Sprintf("%s(%dB):%s", im.Key, len(im.Data), c))
			if tp.Fault(6) == 0 {
				// garbled metadata sidecar next to a (corrupt) shard
				meta := []string{"", "{", "[{\"ID\":1,", "null", "[null]", "\x00\x00\x00"}[tp.Fault(6)]
				os.WriteFile(filepath.Join(dir, im.Key+".meta"), []byte(meta), 0o644)
				descr = append(descr, fmt.Sprintf("%s.meta=%q", im.Key, meta))
			}
		} else {
			if err := os.WriteFile(filepath.Join(dir, im.Key), im.Data, 0o644); err != nil {
				return hx.Result{HarnessErr: err.Error()}
			}
			healthy = append(healthy, im)
		}
	}
	// A repository split over two shards with one of them corrupt is not "another shard's result".
	for _, im := range healthy {
		for _, r := range im.Repos {
			if corruptRepos[r] {
				corruptRepos["*split*"] = true
			}
		}
	}
	queries := []query.Q{
		&query.Substring{Pattern: "needle"},
		&query.Const{Value: true},
		genContentQ(tp, corpus, 1),
		genQuery(tp, corpus, false),
		&query.Regexp{Regexp: mustRe("fun[a-z]*|TODO"), Content: true},
	}
	type outcome struct {
		viol     *hx.Violation
		ok       bool
		evals    int
		nonEmpty bool
	}
	done := make(chan outcome, 1)
	go func() {
		var o outcome
		defer func() {
			if r := recover(); r != nil {
				o.viol = &hx.Violation{Sig: "panic-escaped-to-caller|search", Detail: fmt.Sprintf("%v; %s", r, strings.Join(descr, " "))}
			}
			done <- o
		}()
		ss, err := NewDirectorySearcher(dir)
		if err != nil {
			o.viol = &hx.Violation{Sig: "directory-searcher-failed|load", Detail: err.Error() + "; " + strings.Join(descr, " ")}
			return
		}
		defer ss.Close()
		ctx := refCtx()
		for qi, q := range queries {
			opts := zoekt.SearchOptions{ChunkMatches: qi%2 == 0, Whole: qi == 3}
			res, err := ss.Search(ctx, q, &opts)
			o.evals++
			if err != nil {
				// an error is acceptable only if a healthy shard alone fails too
				if _, _, rerr := refUnion(healthy, q, &opts); rerr == nil {
					class := "other-error"
					switch {
					case strings.Contains(err.Error(), "out of bounds"):
						class = "index-file-read-out-of-bounds"
					case strings.Contains(err.Error(), "context"):
						class = "context-error"
					}
					o.viol = &hx.Violation{Sig: "whole-search-fails-because-of-corrupt-shard|" + class, Detail: fmt.Sprintf("query %s: %v; %s", q, err, strings.Join(descr, " "))}
					return
				}
				continue
			}
			want, _, rerr := refUnion(healthy, q, &opts)
			if rerr != nil {
				continue
			}
			// The corrupt shard may be served and contribute anything under any
			// (possibly garbled, possibly colliding) repository name; what must hold
			// is that nothing from the healthy shards is lost, changed or duplicated.
			if corruptRepos["*split*"] {
				continue
			}
			got, wantH := res.Files, want
			gotN := map[string]int{}
			for _, x := range normFiles(got, false) {
				gotN[x]++
			}
			wantN := map[string]int{}
			for _, x := range normFiles(wantH, false) {
				wantN[x]++
			}
			for x, n := range wantN {
				if gotN[x] < n {
					if len(x) > 400 {
						x = x[:400] + "..."
					}
					o.viol = &hx.Violation{Sig: "healthy-shard-result-lost-or-changed|search", Detail: fmt.Sprintf("query %s: %s; %s", q, x, strings.Join(descr, " "))}
					return
				}
				if gotN[x] > n {
					o.viol = &hx.Violation{Sig: "healthy-shard-result-duplicated|search", Detail: fmt.Sprintf("query %s: %s; %s", q, x, strings.Join(descr, " "))}
					return
				}
			}
			if len(wantH) > 0 {
				o.nonEmpty = true
			}
		}
		// display limits truncate results on the caller's side of the shard boundary
		// (collectSender), outside the per-shard recover: only survival is judged here
		for _, q := range queries[:3] {
			ss.Search(ctx, q, &zoekt.SearchOptions{ChunkMatches: true, NumContextLines: 1, MaxMatchDisplayCount: 1, MaxDocDisplayCount: 2})
			ss.Search(ctx, q, &zoekt.SearchOptions{NumContextLines: 2, MaxMatchDisplayCount: 2})
			o.evals += 2
		}
		// a listing driven by a content query searches the shards (and can crash in them)
		if _, err := ss.List(ctx, queries[0], nil); err != nil {
			if _, rerr := refList(healthy, queries[0], nil); rerr == nil && !strings.Contains(err.Error(), "out of bounds") {
				o.viol = &hx.Violation{Sig: "list-fails-because-of-corrupt-neighbour|list", Detail: "content query: " + err.Error() + "; " + strings.Join(descr, " ")}
				return
			}
		}
		o.evals++
		rl, err := ss.List(ctx, &query.Const{Value: true}, nil)
		o.evals++
		if err != nil {
			o.viol = &hx.Violation{Sig: "list-fails-because-of-corrupt-neighbour|list", Detail: err.Error() + "; " + strings.Join(descr, " ")}
			return
		}
		listed := map[string]bool{}
		for _, e := range rl.Repos {
			listed[e.Repository.Name] = true
		}
		var missing []string
		for _, im := range healthy {
			for _, r := range im.Repos {
				if !listed[r] {
					missing = append(missing, r)
				}
			}
		}
		if len(missing) > 0 {
			sort.Strings(missing)
			o.viol = &hx.Violation{Sig: "healthy-repository-missing-from-listing|list", Detail: fmt.Sprintf("%v; %s", missing, strings.Join(descr, " "))}
			return
		}
		o.ok = true
	}()
	var res hx.Result
	select {
	case o := <-done:
		res.Violation = o.viol
		res.Nontrivial = o.evals > 0 && o.nonEmpty
	case <-time.After(120 * time.Second):
		hx.ExitHang(strings.Join(descr, " "))
	}
	h := uint64(0xcbf29ce484222325)
	for _, s := range descr {
		for i := 0; i < len(s); i++ {
			h ^= uint64(s[i])
			h *= 0x100000001b3
		}
	}
	res.Hash = h ^ uint64(corpus.ID)
	res.Faults = map[string]int{}
	for _, d := range descr {
		if i := strings.Index(d, "):"); i >= 0 {
			k := d[i+2:]
			if j := strings.Index(k, "@"); j >= 0 {
				res.Faults[k[:j]]++
			}
		} else {
			res.Faults["meta-sidecar"]++
		}
	}
	res.Sample = map[string]any{"corpus": corpus.ID, "healthy": len(healthy), "corruptions": descr}
	_ = context.Background
	return res
}
