package search

import (
	"fmt"
	"github.com/sourcegraph/zoekt/query"
	"sort"
	"testing"

	"github.com/sourcegraph/zoekt"
	"github.com/sourcegraph/zoekt/internal/verifsim/hx"
	"github.com/sourcegraph/zoekt/internal/verifsim/simrt"
)

// C29: ranking is deterministic, finite and ordered. Claim: independence of
// the ranking from schedule, worker width, map iteration order and the
// DebugScore flag, and the order invariants on everything the simulation
// produces; the scoring arithmetic over all inputs is not claimed.

func init() { hx.Register("C29", "C29", runC29) }

func scoreMap(fs []zoekt.FileMatch) map[string]float64 {
	m := map[string]float64{}
	for i := range fs {
		m[fileKey(&fs[i])] = fs[i].Score
	}
	return m
}

// sameOrderUpToTies: positions must carry equal scores; identities may differ
// only among equal scores.
func sameRanking(a, b []zoekt.FileMatch) string {
	if len(a) != len(b) {
		return fmt.Sprintf("%d files vs %d files", len(a), len(b))
	}
	ma, mb := scoreMap(a), scoreMap(b)
	for k, v := range ma {
		w, ok := mb[k]
		if !ok {
			return fmt.Sprintf("file %s only in one answer", k)
		}
		if v != w {
			return fmt.Sprintf("file %s scored %.17g in one answer and %.17g in another", k, v, w)
		}
	}
	// the scores of the matches inside each file are part of the ranking too
	matchScores := func(fs []zoekt.FileMatch) map[string]string {
		m := map[string]string{}
		for i := range fs {
			var sc []float64
			for _, lm := range fs[i].LineMatches {
				sc = append(sc, lm.Score)
			}
			for _, cm := range fs[i].ChunkMatches {
				sc = append(sc, cm.Score)
			}
			sort.Float64s(sc)
			m[fileKey(&fs[i])] = fmt.Sprintf("%.17g", sc)
		}
		return m
	}
	la, lb := matchScores(a), matchScores(b)
	for k, v := range la {
		if lb[k] != v {
			return fmt.Sprintf("the matches of file %s scored %s in one answer and %s in another", k, v, lb[k])
		}
	}
	// Positions are not compared across answers: files with equal scores may be
	// permuted ("up to ties"), and which of several tied files end up in the
	// first two places decides which extension counts as novel for the single
	// promotion into third place, so a tie permutation can legitimately move a
	// lower-scored file into position 2. Each answer's own order is checked by
	// checkOrder.
	return ""
}

func runC29(t *testing.T, tp *simrt.Tape, keepTrace bool) hx.Result {
	cfg := simrt.DrawConfig(tp)
	cfg.KeepTrace = keepTrace
	cfg.MaxProcs = []int{1, 2, 3, 4, 8, 16}[tp.Gen(6)]
	cfg.MaxSteps = 120000
	corpus := getCorpus(tp.Gen(nCorpora))
	run := &sRun{Corpus: corpus, Width: cfg.MaxProcs, Cap: int64(tp.GenRange(1, 4))}
	// one (query, options) pair, issued by several clients several times,
	// with and without DebugScore
	var q = genQuery(tp, corpus, false)
	if tp.Gen(2) == 0 {
		q = genContentQ(tp, corpus, 1)
	}
	if tp.Gen(4) == 0 {
		// several terms that occur together on lines, with different frequencies:
		// term-frequency scoring has to sum over all of them
		q = &query.Or{Children: []query.Q{
			&query.Substring{Pattern: sVocab[26], Content: true}, &query.Substring{Pattern: sVocab[28], Content: true},
			&query.Substring{Pattern: sVocab[29], Content: true}, &query.Substring{Pattern: sVocab[30], Content: true},
			&query.Substring{Pattern: sVocab[tp.Gen(26)], Content: true}}}
	}
	base := zoekt.SearchOptions{ChunkMatches: tp.Gen(2) == 0, NumContextLines: tp.Gen(2), UseBM25Scoring: tp.Gen(2) == 0}
	nClients := tp.GenRange(2, 4)
	for ci := 0; ci < nClients; ci++ {
		var prog []*sCall
		n := tp.GenRange(1, 3)
		for k := 0; k < n; k++ {
			c := &sCall{Kind: "search", Q: q, Opts: base}
			c.Opts.DebugScore = tp.Gen(3) == 0
			prog = append(prog, c)
		}
		run.Clients = append(run.Clients, prog)
	}
	var viol *hx.Violation
	s, res, finished := run.execute(t, tp, cfg, func() zoekt.Streamer {
		return &typeRepoSearcher{Streamer: newLoadedSharded(corpus, run.Cap)}
	}, nil)
	finishSim(s, &res, finished, &viol)
	evals := 0
	nonEmpty := false
	if viol == nil && res.HarnessErr == "" && finished {
		var first *sCall
		mode := "default-scoring"
		if base.UseBM25Scoring {
			mode = "bm25"
		}
	outer:
		for ci, prog := range run.Clients {
			for k, c := range prog {
				where := fmt.Sprintf("client%d call %d %s", ci, k, c)
				if c.Panic != "" {
					viol = &hx.Violation{Sig: "panic|" + mode, Detail: where + ": " + c.Panic}
					break outer
				}
				if c.Err != nil {
					viol = &hx.Violation{Sig: "unexpected-error|" + mode, Detail: where + ": " + c.Err.Error()}
					break outer
				}
				evals++
				if p := checkOrder(c.Res.Files, base.ChunkMatches); p != "" {
					viol = &hx.Violation{Sig: "result-not-ordered|" + mode, Detail: where + ": " + p}
					break outer
				}
				if first == nil {
					first = c
					continue
				}
				if p := sameRanking(first.Res.Files, c.Res.Files); p != "" {
					sub := "same-options"
					if first.Opts.DebugScore != c.Opts.DebugScore {
						sub = "debugscore-on-vs-off"
					}
					viol = &hx.Violation{Sig: "ranking-differs-between-identical-searches|" + sub + "|" + mode, Detail: fmt.Sprintf("%s vs first call (debug=%t): %s", where, first.Opts.DebugScore, p)}
					break outer
				}
				if len(c.Res.Files) > 1 {
					nonEmpty = true
				}
			}
		}
	}
	res.Violation = viol
	res.Nontrivial = res.Switches >= 2 && evals > 1 && nonEmpty
	d := run.describe()
	d["steps"], d["switches"], d["policy"] = res.Steps, res.Switches, cfg.Policy
	res.Sample = d
	return res
}
