package search

import (
	"runtime"
	"bytes"
	"context"
	"fmt"
	"os"
	"path/filepath"
	"sort"
	"strings"
	"sync"
	"testing"
	"time"
	"unsafe"

	"github.com/sourcegraph/zoekt"
	"github.com/sourcegraph/zoekt/index"
	"github.com/sourcegraph/zoekt/internal/verifsim/hx"
	"github.com/sourcegraph/zoekt/internal/verifsim/simfsn"
	"github.com/sourcegraph/zoekt/internal/verifsim/simos"
	"github.com/sourcegraph/zoekt/internal/verifsim/simrt"
	"github.com/sourcegraph/zoekt/query"
)

// C19: shard reloads are safe under concurrent search and converge to disk.

func init() {
	hx.Register("C19", "C19", func(t *testing.T, tp *simrt.Tape, keep bool) hx.Result { return runC19(t, tp, keep, false) })
	// gc mode: the collector only runs at scheduler-chosen points (GOGC off) and
	// every such point runs the finalizers, i.e. closes (unmaps) replaced shards
	// that nothing references any more.
	hx.Register("C19/gc", "C19", func(t *testing.T, tp *simrt.Tape, keep bool) hx.Result { return runC19(t, tp, keep, true) })
}

type c19Sentinel struct{ x [16]byte }

// c19FinDone is deliberately created outside any synctest bubble: the runtime's
// finalizer goroutine sends on it.
var c19FinDone = make(chan struct{}, 64)

// c19ForceGC collects and waits until the finalizers queued by the collection
// have run (a sentinel's finalizer is queued behind them); twice, because a
// finalizer (rankedShard.Close) frees objects that carry further finalizers.
func c19ForceGC() {
	for round := 0; round < 2; round++ {
		s := &c19Sentinel{}
		runtime.SetFinalizer(s, func(*c19Sentinel) { c19FinDone <- struct{}{} })
		s = nil
		runtime.GC()
		runtime.GC()
		<-c19FinDone
	}
}

// ---- versioned shard images -------------------------------------------------

type wImage struct {
	data  []byte
	repos []string // repository names
	docs  map[string]int
}

var (
	wMu    sync.Mutex
	wCache = map[string]*wImage{}
)

func wDocs(repo string, ver int) int { return 2 + (ver+len(repo))%3 }

func wToken(repo string, ver int) string { return fmt.Sprintf("%s@v%d", repo, ver) }

func wRepo(id uint32, name string, ver int) *sRepo {
	r := &sRepo{Repo: zoekt.Repository{ID: id, Name: name, Branches: []zoekt.RepositoryBranch{{Name: "HEAD", Version: fmt.Sprintf("v%d", ver)}},
		RawConfig: map[string]string{"vtoken": wToken(name, ver), "priority": fmt.Sprint(int(id) % 3)}}}
	for d := 0; d < wDocs(name, ver); d++ {
		r.Docs = append(r.Docs, index.Document{Name: fmt.Sprintf("f%d.txt", d), Content: []byte(fmt.Sprintf("needle %s doc%d\nsecond line\n", wToken(name, ver), d)), Branches: []string{"HEAD"}})
	}
	return r
}

// wShard returns the image of path p at version ver. Paths 0..2 are simple
// shards of repositories w0..w2; path 3 is a compound shard of c0 and c1.
func wShard(p, ver int) *wImage {
	key := fmt.Sprintf("%d/%d", p, ver)
	wMu.Lock()
	defer wMu.Unlock()
	if im, ok := wCache[key]; ok {
		return im
	}
	var im *wImage
	// shard images are shared between worker processes through the per-tree
	// image cache: building one costs ~0.5 s (the ShardBuilder's tables)
	cacheFile := ""
	if d := os.Getenv("VERIF_IMGCACHE"); d != "" {
		os.MkdirAll(filepath.Join(d, "c19"), 0o755)
		cacheFile = filepath.Join(d, "c19", fmt.Sprintf("%d-%d.zoekt", p, ver))
		if data, err := os.ReadFile(cacheFile); err == nil && len(data) > 0 {
			if p != 3 {
				im = &wImage{data: data, repos: []string{wSimpleName(p)}}
			} else {
				im = &wImage{data: data, repos: []string{"c0", "c1"}}
			}
			wCache[key] = im
			return im
		}
	}
	defer func() {
		if cacheFile != "" && im != nil {
			tmp := fmt.Sprintf("%s.%d.tmp", cacheFile, os.Getpid())
			if os.WriteFile(tmp, im.data, 0o644) == nil {
				os.Rename(tmp, cacheFile)
			}
		}
	}()
	if p != 3 {
		name := wSimpleName(p)
		id := uint32(p + 1)
		if p >= 4 {
			id = 5
		}
		s := buildSimple(wRepo(id, name, ver), wRepo(id, name, ver).Docs, 0)
		im = &wImage{data: s.Data, repos: []string{name}}
	} else {
		a := wRepo(10, "c0", ver)
		b := wRepo(11, "c1", ver)
		c := buildCompound([]*sImage{buildSimple(a, a.Docs, 0), buildSimple(b, b.Docs, 0)})
		im = &wImage{data: c.Data, repos: []string{"c0", "c1"}}
	}
	wCache[key] = im
	return im
}

// wSimpleName: paths 0..2 hold repositories w0..w2; paths 4 and 5 hold the same
// repository "x_v2" (its name contains "_v") under the current and the next
// index format version: while both files exist only the newer format is served.
func wSimpleName(p int) string {
	if p >= 4 {
		return "x_v2"
	}
	return fmt.Sprintf("w%d", p)
}

const wPaths = 6

func wPath(dir string, p int) string {
	switch {
	case p < 3:
		return filepath.Join(dir, fmt.Sprintf("w%d_v%d.00000.zoekt", p, index.IndexFormatVersion))
	case p == 4:
		return filepath.Join(dir, fmt.Sprintf("x_v2_v%d.00000.zoekt", index.IndexFormatVersion))
	case p == 5:
		return filepath.Join(dir, fmt.Sprintf("x_v2_v%d.00000.zoekt", index.NextIndexFormatVersion))
	}
	return filepath.Join(dir, fmt.Sprintf("compound-verif_v%d.00000.zoekt", index.NextIndexFormatVersion))
}

// ---- disk and snapshot histories ----------------------------------------------

type diskFile struct {
	ver  int
	tomb map[string]bool
}

func aliveTokens(files map[int]*diskFile) map[string]bool {
	out := map[string]bool{}
	for p, f := range files {
		if _, newer := files[5]; p == 4 && newer {
			continue // superseded by the same repository's shard in the newer index format
		}
		for _, r := range wShard(p, f.ver).repos {
			if !f.tomb[r] {
				out[wToken(r, f.ver)] = true
			}
		}
	}
	return out
}

func tokensKey(m map[string]bool) string {
	var l []string
	for k := range m {
		l = append(l, k)
	}
	sort.Strings(l)
	return strings.Join(l, ",")
}

type snap struct {
	step   int
	tokens map[string]bool
	dup    string
}

func tokenVer(tok string) (string, int) {
	i := strings.Index(tok, "@v")
	var v int
	fmt.Sscanf(tok[i+2:], "%d", &v)
	return tok[:i], v
}

func runC19(t *testing.T, tp *simrt.Tape, keepTrace bool, gcMode bool) hx.Result {
	cfg := simrt.DrawConfig(tp)
	cfg.KeepTrace = keepTrace
	if gcMode {
		cfg.GCPerMille = []int{10, 40, 120}[tp.Gen(3)]
		defer c19ForceGC() // leave no garbage (and no pending finalizers) for the next run
	}
	cfg.MaxProcs = []int{1, 2, 4, 16}[tp.Gen(4)]
	cfg.MaxSteps = 400000
	cfg.Horizon = 6 * time.Hour
	capacity := int64(tp.GenRange(1, 4))
	faults := simfsn.FaultCfg{}
	if tp.Gen(2) == 0 {
		faults = simfsn.FaultCfg{Enabled: true, DropPct: []int{0, 20, 60}[tp.Gen(3)], DelayPct: []int{0, 20, 40}[tp.Gen(3)], DupPct: []int{0, 10}[tp.Gen(2)], OverflowPct: []int{0, 10}[tp.Gen(2)]}
	}
	// initial directory
	type change struct {
		kind  string // write (create or replace), delete, tomb, untomb
		p     int
		repo  string
		sleep time.Duration
	}
	nInit := tp.GenRange(0, 4)
	initial := map[int]bool{}
	for i := 0; i < nInit; i++ {
		initial[tp.Gen(wPaths)] = true
	}
	nChanges := tp.GenRange(1, 8)
	sleeps := []time.Duration{time.Millisecond, 3 * time.Millisecond, 200 * time.Millisecond, 2 * time.Second, 20 * time.Second, 70 * time.Second}
	var changes []change
	for i := 0; i < nChanges; i++ {
		c := change{p: tp.Gen(wPaths), sleep: sleeps[tp.Gen(len(sleeps))]}
		switch tp.Gen(8) {
		case 7:
			// a file that is not a shard the builder would write appears under a
			// *.zoekt name the watcher has to parse (garbage content)
			c.kind = "odd-file"
		case 6:
			// replaced by a file that carries an OLDER mtime than the loaded version
			// (two overlapping builds finishing out of order, cp -p / rsync -a restore)
			c.kind = "write-older"
		case 0:
			c.kind = "delete"
		case 1:
			c.kind, c.p, c.repo = "tomb", 3, []string{"c0", "c1"}[tp.Gen(2)]
		case 2:
			c.kind, c.p, c.repo = "untomb", 3, []string{"c0", "c1"}[tp.Gen(2)]
		default:
			c.kind = "write"
		}
		changes = append(changes, c)
	}
	// Prepare every shard image the run will write before the simulation starts:
	// building one (or merging a compound shard) executes instrumented code and
	// would otherwise add scheduler steps the first time an image is needed in a
	// worker process, making a run depend on the process's history.
	{
		v := 1
		for p := 0; p < wPaths; p++ {
			if initial[p] {
				wShard(p, v)
				v++
			}
		}
		for _, c := range changes {
			if c.kind == "write" || c.kind == "write-older" {
				wShard(c.p, v)
				v++
			}
		}
	}
	nClients := tp.GenRange(1, 3)
	type cplan struct {
		n     int
		kinds []int
		gaps  []time.Duration
		flush []time.Duration
	}
	gapChoices := []time.Duration{0, 0, time.Millisecond, 100 * time.Millisecond, 5 * time.Second}
	var cplans []cplan
	for i := 0; i < nClients; i++ {
		p := cplan{n: tp.GenRange(1, 6)}
		for k := 0; k < p.n; k++ {
			p.kinds = append(p.kinds, tp.Gen(3))
			p.gaps = append(p.gaps, gapChoices[tp.Gen(len(gapChoices))])
			p.flush = append(p.flush, []time.Duration{0, time.Millisecond, 50 * time.Millisecond, time.Hour}[tp.Gen(4)])
		}
		cplans = append(cplans, p)
	}
	waitReady := tp.Gen(2) == 0

	dir, err := os.MkdirTemp(sScratch(), "c19-")
	if err != nil {
		return hx.Result{HarnessErr: err.Error()}
	}
	defer os.RemoveAll(dir)

	var viol *hx.Violation
	setViol := func(sig, detail string) {
		if viol == nil {
			viol = &hx.Violation{Sig: sig, Detail: detail}
		}
	}
	disk := map[int]*diskFile{}
	everOnDisk := map[string]int{} // token -> first step at which it was alive on disk
	nextVer := 1
	noteDisk := func() {
		for tok := range aliveTokens(disk) {
			if _, ok := everOnDisk[tok]; !ok {
				everOnDisk[tok] = simrt.StepNo()
			}
		}
	}
	var snaps []snap
	var lastPtr unsafe.Pointer
	var lastLen = -1
	type answer struct {
		kind           string
		invoke, ret    int
		tokens         map[string]int
		crashes        int
		readyAtInvoke  bool
		err            error
		panicked       string
		dupRepoInList  string
	}
	var answers []*answer
	finished := false
	converged := false
	var finalLoaded, finalDisk string
	var ssRef *shardedSearcher
	faultStats := map[string]int{}

	s, res := hx.Sim(t, tp, cfg, func() {
		simfsn.Reset(faults)
		defer func() { simos.Watch = nil }()
		indexer := simos.NewProc("indexer", simos.Plan{})
		firstWrite := time.Now()
		olderSeq := 0
		writeShard := func(p, ver int, older bool) {
			im := wShard(p, ver)
			final := wPath(dir, p)
			f, err := simos.CreateTemp(dir, filepath.Base(final)+".*.tmp")
			if err != nil {
				panic(err)
			}
			f.Write(im.data)
			f.Close()
			if older {
				// distinct from every other mtime of the run, and before all of them
				olderSeq++
				old := firstWrite.Add(-time.Duration(olderSeq) * time.Hour)
				if err := simos.Chtimes(f.Name(), old, old); err != nil {
					panic(err)
				}
			}
			// a fresh shard has no tombstones: drop a stale sidecar first (as the builder does)
			if _, err := os.Stat(final + ".meta"); err == nil {
				simos.Remove(final + ".meta")
			}
			// the new version becomes visible atomically with the rename
			for _, r := range im.repos {
				if _, ok := everOnDisk[wToken(r, ver)]; !ok {
					everOnDisk[wToken(r, ver)] = simrt.StepNo()
				}
			}
			if err := simos.Rename(f.Name(), final); err != nil {
				panic(err)
			}
		}
		// initial content is written before the searcher starts
		simos.SetSeqProc(nil)
		for p := 0; p < wPaths; p++ {
			if !initial[p] {
				continue
			}
			data := wShard(p, nextVer).data
			if err := os.WriteFile(wPath(dir, p), data, 0o644); err != nil {
				panic(err)
			}
			os.Chtimes(wPath(dir, p), time.Now(), time.Now()) // fake clock, like every later write
			disk[p] = &diskFile{ver: nextVer, tomb: map[string]bool{}}
			nextVer++
		}
		noteDisk()

		ss := newShardedSearcher(capacity)
		ssRef = ss
		tl := &loader{ss: ss}
		dw, err := newDirectoryWatcher(dir, tl)
		if err != nil {
			panic(err)
		}
		ds := &directorySearcher{Streamer: ss, directoryWatcher: dw}
		var searcher zoekt.Streamer = &typeRepoSearcher{Streamer: ds}

		if gcMode {
			simrt.SetGCHook(c19ForceGC)
		}
		simrt.OnStep(func() error {
			if viol != nil {
				return fmt.Errorf("violation")
			}
			cur, _ := ss.ranked.Peek().([]*rankedShard)
			var ptr unsafe.Pointer
			if len(cur) > 0 {
				ptr = unsafe.Pointer(unsafe.SliceData(cur))
			}
			if ptr == lastPtr && len(cur) == lastLen {
				return nil
			}
			lastPtr, lastLen = ptr, len(cur)
			sn := snap{step: simrt.StepNo(), tokens: map[string]bool{}}
			names := map[string]string{}
			for _, rs := range cur {
				for _, r := range rs.repos {
					tok := r.RawConfig["vtoken"]
					sn.tokens[tok] = true
					if prev, ok := names[r.Name]; ok && prev != tok {
						sn.dup = fmt.Sprintf("repository %s loaded in versions %s and %s at once", r.Name, prev, tok)
					}
					names[r.Name] = tok
				}
			}
			snaps = append(snaps, sn)
			// (b) honest snapshots
			if sn.dup != "" {
				setViol("two-versions-of-one-repository-loaded|snapshot", sn.dup)
			}
			for tok := range sn.tokens {
				if _, ok := everOnDisk[tok]; !ok {
					setViol("loaded-version-never-on-disk|snapshot", fmt.Sprintf("snapshot at step %d holds %s which was never complete on disk", sn.step, tok))
				}
			}
			if viol != nil {
				return fmt.Errorf("violation")
			}
			return nil
		})

		if waitReady {
			if err := dw.WaitUntilReady(); err != nil {
				panic(err)
			}
		}

		done := make(chan int, nClients+1)
		simrt.GoProc(indexer, "indexer", func() {
			defer func() { simrt.Send(done, "c19done")(-1) }()
			for _, c := range changes {
				simrt.Sleep(c.sleep)
				switch c.kind {
				case "odd-file":
					name := []string{"x_.zoekt", "_v.zoekt", "stray_v16.zoekt", "notes_vNext.00000.zoekt", ".zoekt"}[c.p%5]
					if err := simos.WriteFile(filepath.Join(dir, name), []byte("not a shard"), 0o644); err != nil {
						panic(err)
					}
					continue
				case "write", "write-older":
					writeShard(c.p, nextVer, c.kind == "write-older")
					disk[c.p] = &diskFile{ver: nextVer, tomb: map[string]bool{}}
					nextVer++
				case "delete":
					if _, ok := disk[c.p]; !ok {
						continue
					}
					// what becomes visible through this removal (the older-format shard of the
					// same repository) counts as on disk from now on: the watcher may load it
					// before this task runs again
					{
						after := map[int]*diskFile{}
						for k, v := range disk {
							if k != c.p {
								after[k] = v
							}
						}
						for tok := range aliveTokens(after) {
							if _, ok := everOnDisk[tok]; !ok {
								everOnDisk[tok] = simrt.StepNo()
							}
						}
					}
					simos.Remove(wPath(dir, c.p))
					if _, err := os.Stat(wPath(dir, c.p) + ".meta"); err == nil {
						simos.Remove(wPath(dir, c.p) + ".meta")
					}
					delete(disk, c.p)
				case "tomb", "untomb":
					f, ok := disk[3]
					if !ok {
						continue
					}
					id := uint32(10)
					if c.repo == "c1" {
						id = 11
					}
					var err error
					if c.kind == "tomb" {
						err = index.SetTombstone(wPath(dir, 3), id)
					} else {
						err = index.UnsetTombstone(wPath(dir, 3), id)
					}
					if err != nil {
						panic(err)
					}
					nt := map[string]bool{}
					for k, v := range f.tomb {
						nt[k] = v
					}
					nt[c.repo] = c.kind == "tomb"
					disk[3] = &diskFile{ver: f.ver, tomb: nt}
				}
				noteDisk()
				simrt.Log("disk", len(disk), nextVer, c.kind)
			}
		})
		for ci := 0; ci < nClients; ci++ {
			ci := ci
			pl := cplans[ci]
			simrt.GoNamed(fmt.Sprintf("client%d", ci), func() {
				defer func() { simrt.Send(done, "c19done")(ci) }()
				for k := 0; k < pl.n; k++ {
					if pl.gaps[k] > 0 {
						simrt.Sleep(pl.gaps[k])
					}
					a := &answer{tokens: map[string]int{}}
					func() {
						defer func() {
							if r := recover(); r != nil {
								a.panicked = fmt.Sprint(r)
							}
							a.ret = simrt.StepNo()
						}()
						simrt.Yield("c19-invoke")
						a.invoke = simrt.StepNo()
						a.readyAtInvoke = ss.ready.Peek()
						q := &query.Substring{Pattern: "needle"}
						switch pl.kinds[k] {
						case 0:
							a.kind = "search"
							r, err := searcher.Search(refCtx(), q, &zoekt.SearchOptions{})
							a.err = err
							if r != nil {
								a.crashes = r.Stats.Crashes
								for _, f := range r.Files {
									a.tokens[f.Repository+"@"+f.Version]++
									if len(f.LineMatches) == 0 || !bytes.Contains(f.LineMatches[0].Line, []byte(f.Repository+"@"+f.Version+" ")) {
										a.panicked = fmt.Sprintf("file %s/%s version %s carries line %q", f.Repository, f.FileName, f.Version, f.LineMatches)
									}
								}
							}
						case 1:
							a.kind = "stream"
							// FlushWallTime > 0 makes the searcher buffer results that still point
							// into the shards' mapped files until the timer fires or the search ends
							sopts := &zoekt.SearchOptions{FlushWallTime: pl.flush[k]}
							err := searcher.StreamSearch(refCtx(), q, sopts, zoekt.SenderFunc(func(r *zoekt.SearchResult) {
								a.crashes += r.Stats.Crashes
								for _, f := range r.Files {
									a.tokens[f.Repository+"@"+f.Version]++
								}
							}))
							a.err = err
						default:
							a.kind = "list"
							rl, err := searcher.List(refCtx(), &query.Const{Value: true}, nil)
							a.err = err
							if rl != nil {
								a.crashes = rl.Crashes
								for _, e := range rl.Repos {
									tok := e.Repository.RawConfig["vtoken"]
									if a.tokens[tok] > 0 {
										a.dupRepoInList = tok
									}
									a.tokens[tok] = wDocsTok(tok)
								}
							}
						}
					}()
					answers = append(answers, a)
				}
			})
		}
		for i := 0; i < nClients+1; i++ {
			simrt.Recv(done, "c19main")
		}
		// (d) bounded liveness: faults stop, then within 61 simulated seconds (one
		// ticker period) plus a grace of fair steps the loaded set equals the disk.
		simfsn.StopFaults()
		simrt.Calm()
		want := tokensKey(aliveTokens(disk))
		loadedKey := func() string {
			cur, _ := ss.ranked.Peek().([]*rankedShard)
			m := map[string]bool{}
			for _, rs := range cur {
				for _, r := range rs.repos {
					m[r.RawConfig["vtoken"]] = true
				}
			}
			return tokensKey(m)
		}
		// not "at some moment" but "from then on": wait out the whole bound first
		simrt.Sleep(61*time.Second + 500*time.Millisecond)
		converged = loadedKey() == want
		finalLoaded, finalDisk = loadedKey(), want
		if converged {
			// and a search agrees with the disk
			r, err := searcher.Search(refCtx(), &query.Substring{Pattern: "needle"}, &zoekt.SearchOptions{})
			if err != nil {
				setViol("final-search-failed|convergence", err.Error())
			} else {
				got := map[string]int{}
				for _, f := range r.Files {
					got[f.Repository+"@"+f.Version]++
				}
				exp := map[string]int{}
				for tok := range aliveTokens(disk) {
					exp[tok] = wDocsTok(tok)
				}
				if fmt.Sprint(got) != fmt.Sprint(exp) {
					setViol("final-search-differs-from-disk|convergence", fmt.Sprintf("got %v want %v", got, exp))
				}
				if r.Stats.Crashes != 0 {
					setViol("crash-count|final", fmt.Sprintf("Stats.Crashes=%d after convergence", r.Stats.Crashes))
				}
			}
		}
		ds.Close()
		for k, v := range simfsn.Stats {
			faultStats[k] = v
		}
		finished = true
	})
	_ = ssRef
	_ = context.Background
	if s != nil && viol == nil && res.HarnessErr == "" {
		if s.Deadlocked() {
			viol = &hx.Violation{Sig: "deadlock|liveness", Detail: strings.Join(s.BlockedSites(), " ")}
		} else if s.OverBudget() {
			res.HarnessErr = "step budget exceeded: " + strings.Join(s.BlockedSites(), " ")
		} else if !finished && s.StopErr() == nil {
			res.HarnessErr = "main task did not finish"
		}
	}
	describe := func() string {
		var b strings.Builder
		fmt.Fprintf(&b, "initial=%v changes=%+v faults=%+v clients=%+v snapshots=[", initial, changes, faults, cplans)
		for _, sn := range snaps {
			fmt.Fprintf(&b, "%d:{%s} ", sn.step, tokensKey(sn.tokens))
		}
		b.WriteString("]")
		return b.String()
	}
	if viol == nil && res.HarnessErr == "" && finished {
		if !converged {
			viol = &hx.Violation{Sig: "loaded-set-does-not-converge-to-disk|convergence", Detail: fmt.Sprintf("61 s after the last change and the last injected notification fault: loaded {%s}, on disk {%s}; %s", finalLoaded, finalDisk, describe())}
		}
	}
	evals := 0
	nonEmpty := false
	if viol == nil && res.HarnessErr == "" && finished {
		for ai, a := range answers {
			where := fmt.Sprintf("answer %d (%s, steps %d..%d)", ai, a.kind, a.invoke, a.ret)
			if a.panicked != "" {
				viol = &hx.Violation{Sig: "panic-or-corrupt-result|" + a.kind, Detail: where + ": " + a.panicked}
				break
			}
			if a.err != nil {
				viol = &hx.Violation{Sig: "unexpected-error|" + a.kind, Detail: where + ": " + a.err.Error()}
				break
			}
			if a.dupRepoInList != "" {
				viol = &hx.Violation{Sig: "repository-listed-twice|list", Detail: where + ": " + a.dupRepoInList}
				break
			}
			if a.crashes != 0 && a.readyAtInvoke {
				viol = &hx.Violation{Sig: "crash-count|" + a.kind, Detail: fmt.Sprintf("%s: Crashes=%d although the initial load had finished", where, a.crashes)}
				break
			}
			evals++
			// (a) the answer equals exactly one snapshot published during the call
			ok := false
			var cands []string
			for si, sn := range snaps {
				next := 1 << 60
				if si+1 < len(snaps) {
					next = snaps[si+1].step
				}
				// snapshot si is current during [sn.step, next)
				if sn.step > a.ret || next <= a.invoke {
					continue
				}
				exp := map[string]int{}
				for tok := range sn.tokens {
					exp[tok] = wDocsTok(tok)
				}
				cands = append(cands, fmt.Sprintf("%d:%v", sn.step, exp))
				if fmt.Sprint(exp) == fmt.Sprint(a.tokens) {
					ok = true
					break
				}
			}
			if len(snaps) == 0 || (len(cands) == 0 && len(a.tokens) == 0) {
				ok = len(a.tokens) == 0
			}
			if !ok && len(a.tokens) == 0 && (len(snaps) == 0 || snaps[0].step > a.invoke) {
				ok = true // nothing was published yet when the call started
			}
			if !ok {
				viol = &hx.Violation{Sig: "answer-matches-no-published-snapshot|" + a.kind, Detail: fmt.Sprintf("%s returned %v; snapshots current during the call: %v; %s", where, a.tokens, cands, describe())}
				break
			}
			if len(a.tokens) > 0 {
				nonEmpty = true
			}
		}
	}
	res.Violation = viol
	res.Faults = faultStats
	res.Offered = map[string]int{"notification": faultStats["queued"] + faultStats["dropped"]}
	res.Nontrivial = res.Switches >= 2 && evals > 0 && nonEmpty && len(snaps) >= 2
	res.Sample = map[string]any{"scenario": describe(), "steps": res.Steps, "switches": res.Switches, "policy": cfg.Policy, "worker_width": cfg.MaxProcs, "answers": len(answers), "sim_time": res.SimTime.String()}
	return res
}

func wDocsTok(tok string) int {
	name, ver := tokenVer(tok)
	return wDocs(name, ver)
}
