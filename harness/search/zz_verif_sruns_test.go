package search

import (
	"context"
	"fmt"
	"sort"
	"strings"
	"testing"
	"time"

	"github.com/sourcegraph/zoekt"
	"github.com/sourcegraph/zoekt/internal/verifsim/hx"
	"github.com/sourcegraph/zoekt/internal/verifsim/simrt"
	"github.com/sourcegraph/zoekt/query"
)

// Shared machinery of the S harnesses: a generated set of client programs is
// executed against one shardedSearcher under the scheduler; every call's
// outcome is recorded with its invoke/return step.

type sCall struct {
	Kind string // search | stream | list
	Q    query.Q
	Opts zoekt.SearchOptions
	LOpt *zoekt.ListOptions
	// cancellation plan
	CancelKind  int // 0 none, 1 cancel task after sleep, 2 ctx deadline
	CancelAfter time.Duration

	// outcome
	Res      *zoekt.SearchResult   // search
	Events   []*zoekt.SearchResult // stream
	List     *zoekt.RepoList
	Err      error
	Panic    string
	Invoke   int
	Return   int
	Done     bool
	CtxErrAt int // step at which the context was observed done by the canceller (0 = not cancelled)
	RetTime  time.Duration
	CanTime  time.Duration
	cancelled bool
}

func (c *sCall) String() string {
	return fmt.Sprintf("%s %s opts={whole:%t chunk:%t ctx:%d shardMax:%d total:%d repoMax:%d docs:%d matches:%d flush:%v wall:%v bm25:%t debug:%t} cancel=%d/%v",
		c.Kind, c.Q, c.Opts.Whole, c.Opts.ChunkMatches, c.Opts.NumContextLines, c.Opts.ShardMaxMatchCount, c.Opts.TotalMaxMatchCount, c.Opts.ShardRepoMaxMatchCount,
		c.Opts.MaxDocDisplayCount, c.Opts.MaxMatchDisplayCount, c.Opts.FlushWallTime, c.Opts.MaxWallTime, c.Opts.UseBM25Scoring, c.Opts.DebugScore, c.CancelKind, c.CancelAfter)
}

// files returns every delivered file in delivery order.
func (c *sCall) files() []zoekt.FileMatch {
	if c.Kind == "search" {
		if c.Res == nil {
			return nil
		}
		return c.Res.Files
	}
	var out []zoekt.FileMatch
	for _, e := range c.Events {
		out = append(out, e.Files...)
	}
	return out
}

func (c *sCall) stats() zoekt.Stats {
	var st zoekt.Stats
	if c.Kind == "search" {
		if c.Res != nil {
			st = c.Res.Stats
		}
		return st
	}
	for _, e := range c.Events {
		st.Add(e.Stats)
	}
	return st
}

type sRun struct {
	Corpus  *sCorpus
	Width   int
	Cap     int64
	Clients [][]*sCall
	CacheSz string
}

func (r *sRun) describe() map[string]any {
	var progs []string
	for i, cl := range r.Clients {
		for _, c := range cl {
			progs = append(progs, fmt.Sprintf("client%d: %s", i, c))
		}
	}
	var shards []string
	for _, s := range r.Corpus.Shards {
		shards = append(shards, fmt.Sprintf("%s%v", s.Key, s.Repos))
	}
	return map[string]any{"corpus": r.Corpus.ID, "shards": shards, "worker_width": r.Width, "sched_capacity": r.Cap, "calls": progs, "docmatchtree_cache": r.CacheSz}
}

type recordingSender struct{ c *sCall }

func (s recordingSender) Send(r *zoekt.SearchResult) {
	// a well-behaved client keeps what it receives
	cp := *r
	cp.Files = append([]zoekt.FileMatch(nil), r.Files...)
	s.c.Events = append(s.c.Events, &cp)
}

// execute runs the programs under the scheduler. mk builds the searcher inside
// the simulation (so that simulated primitives start in a clean state).
func (r *sRun) execute(t *testing.T, tp *simrt.Tape, cfg simrt.Config, mk func() zoekt.Streamer, extra func()) (*simrt.Sim, hx.Result, bool) {
	finished := false
	s, res := hx.Sim(t, tp, cfg, func() {
		ss := mk()
		n := len(r.Clients)
		done := make(chan int, n)
		for ci := range r.Clients {
			ci := ci
			simrt.GoNamed(fmt.Sprintf("client%d", ci), func() {
				defer func() { simrt.Send(done, "sdone")(ci) }()
				for _, c := range r.Clients[ci] {
					runCall(ss, c)
				}
			})
		}
		if extra != nil {
			extra()
		}
		for range r.Clients {
			simrt.Recv(done, "smain")
		}
		ss.Close()
		finished = true
	})
	return s, res, finished
}

func runCall(ss zoekt.Streamer, c *sCall) { runCallCtx(ss, c, refCtx()) }

func runCallCtx(ss zoekt.Streamer, c *sCall, ctx context.Context) {
	defer func() {
		if p := recover(); p != nil {
			c.Panic = fmt.Sprint(p)
		}
		c.Return = simrt.StepNo()
		c.RetTime = time.Duration(time.Now().UnixNano())
		c.Done = true
	}()
	var cancel context.CancelFunc = func() {}
	switch c.CancelKind {
	case 1:
		ctx, cancel = context.WithCancel(ctx)
		after := c.CancelAfter
		cc := cancel
		simrt.GoNamed("canceller", func() {
			if after > 0 {
				simrt.Sleep(after)
			} else {
				simrt.Yield("canceller")
			}
			if !c.Done {
				c.CtxErrAt = simrt.StepNo()
				c.CanTime = time.Duration(time.Now().UnixNano())
				c.cancelled = true
			}
			cc()
		})
	case 2:
		ctx, cancel = context.WithTimeout(ctx, c.CancelAfter)
	}
	defer cancel()
	simrt.Yield("invoke")
	c.Invoke = simrt.StepNo()
	opts := c.Opts
	switch c.Kind {
	case "search":
		c.Res, c.Err = ss.Search(ctx, c.Q, &opts)
	case "stream":
		c.Err = ss.StreamSearch(ctx, c.Q, &opts, recordingSender{c})
	case "list":
		c.List, c.Err = ss.List(ctx, c.Q, c.LOpt)
	}
}

// finishSim turns scheduler-level outcomes into a violation or harness error.
func finishSim(s *simrt.Sim, res *hx.Result, finished bool, viol **hx.Violation) {
	if s == nil || *viol != nil || res.HarnessErr != "" {
		return
	}
	if s.Deadlocked() {
		*viol = &hx.Violation{Sig: "deadlock|liveness", Detail: strings.Join(s.BlockedSites(), " ")}
	} else if s.OverBudget() {
		res.HarnessErr = "step budget exceeded: " + strings.Join(s.BlockedSites(), " ")
	} else if !finished && s.StopErr() == nil {
		res.HarnessErr = "main task did not finish"
	}
}

// ---- generic option generators -------------------------------------------

func genBaseOpts(tp *simrt.Tape) zoekt.SearchOptions {
	var o zoekt.SearchOptions
	switch tp.Gen(4) {
	case 0:
		o.ChunkMatches = true
	case 1:
		o.Whole = true
	}
	o.NumContextLines = []int{0, 0, 1, 2}[tp.Gen(4)]
	return o
}

// ---- list reference --------------------------------------------------------

type listRef struct {
	stats map[string]zoekt.RepoStats
	ids   map[uint32]bool
}

func refList(shards []*sImage, q query.Q, opts *zoekt.ListOptions) (*listRef, error) {
	lr := &listRef{stats: map[string]zoekt.RepoStats{}, ids: map[uint32]bool{}}
	for _, im := range shards {
		s := im.searcher()
		rl, err := s.List(refCtx(), q, opts)
		s.Close()
		if err != nil {
			return nil, err
		}
		for _, e := range rl.Repos {
			st := lr.stats[e.Repository.Name]
			st.Add(&e.Stats)
			lr.stats[e.Repository.Name] = st
		}
		for id := range rl.ReposMap {
			lr.ids[id] = true
		}
	}
	return lr, nil
}

func checkList(c *sCall, shards []*sImage) string {
	ref, err := refList(shards, c.Q, c.LOpt)
	if err != nil {
		if c.Err == nil {
			return "reference list failed (" + err.Error() + ") but the sharded list succeeded"
		}
		return ""
	}
	if c.Err != nil {
		return "list failed: " + c.Err.Error()
	}
	seen := map[string]int{}
	for _, e := range c.List.Repos {
		seen[e.Repository.Name]++
	}
	var probs []string
	for n, k := range seen {
		if k > 1 {
			probs = append(probs, fmt.Sprintf("repository %s listed %d times", n, k))
		}
		if _, ok := ref.stats[n]; !ok {
			probs = append(probs, fmt.Sprintf("repository %s listed but no shard lists it on its own", n))
		}
	}
	for n, st := range ref.stats {
		if seen[n] == 0 {
			probs = append(probs, fmt.Sprintf("repository %s missing from listing", n))
			continue
		}
		for _, e := range c.List.Repos {
			if e.Repository.Name == n && e.Stats != st {
				probs = append(probs, fmt.Sprintf("repository %s stats %+v, sum over its shards %+v", n, e.Stats, st))
			}
		}
	}
	for id := range ref.ids {
		if _, ok := c.List.ReposMap[id]; !ok {
			probs = append(probs, fmt.Sprintf("repository id %d missing from ReposMap", id))
		}
	}
	for id := range c.List.ReposMap {
		if !ref.ids[id] {
			probs = append(probs, fmt.Sprintf("repository id %d in ReposMap but no shard lists it", id))
		}
	}
	sort.Strings(probs)
	return strings.Join(probs, "; ")
}

// refTypeRepo replaces (type:repo child) by the set of repositories that have
// a document matching child in any shard, computed with Search (the
// implementation uses List) on each shard alone.
func refTypeRepo(shards []*sImage, q query.Q) (query.Q, error) {
	var err error
	out := query.Map(q, func(q query.Q) query.Q {
		tq, ok := q.(*query.Type)
		if !ok || tq.Type != query.TypeRepo {
			return q
		}
		set := map[string]bool{}
		for _, im := range shards {
			r, e := refSearchShard(im, tq.Child, &zoekt.SearchOptions{})
			if e != nil {
				err = e
				return q
			}
			for _, f := range r.Files {
				set[f.Repository] = true
			}
		}
		return &query.RepoSet{Set: set}
	})
	return out, err
}

func hasTypeRepo(q query.Q) bool {
	found := false
	query.Map(q, func(q query.Q) query.Q {
		if t, ok := q.(*query.Type); ok && t.Type == query.TypeRepo {
			found = true
		}
		return q
	})
	return found
}
