package search

import (
	"fmt"
	"sort"
	"strings"
	"testing"
	"time"

	"github.com/sourcegraph/zoekt"
	"github.com/sourcegraph/zoekt/internal/verifsim/hx"
	"github.com/sourcegraph/zoekt/internal/verifsim/simrt"
)

// C25/flush: the collect-then-stream stage of StreamSearch (newFlushCollectSender)
// under the scheduler: a producer (the shard result loop) sends results while
// the FlushWallTime timer goroutine races it on the fake clock and the
// downstream sender (the gRPC stream, not thread-safe) takes simulated time.
// Conservation: every produced file and every statistics counter reaches the
// downstream sender exactly once, all of it before the final flush returns, and
// the downstream sender is never entered by two goroutines at once.

func init() { hx.Register("C25/flush", "C25", runC25Flush) }

func runC25Flush(t *testing.T, tp *simrt.Tape, keepTrace bool) hx.Result {
	cfg := simrt.DrawConfig(tp)
	cfg.KeepTrace = keepTrace
	cfg.MaxSteps = 20000
	flushAfter := []time.Duration{time.Millisecond, 10 * time.Millisecond, 100 * time.Millisecond, time.Hour}[tp.Gen(4)]
	gaps := []time.Duration{0, 0, time.Millisecond, 5 * time.Millisecond, 60 * time.Millisecond}
	sendCosts := []time.Duration{0, 0, time.Millisecond, 30 * time.Millisecond}
	nRes := tp.GenRange(1, 12)
	type prod struct {
		files int
		gap   time.Duration
		stats int
	}
	var plan []prod
	for i := 0; i < nRes; i++ {
		plan = append(plan, prod{files: tp.GenRange(0, 3), gap: gaps[tp.Gen(len(gaps))], stats: tp.GenRange(0, 5)})
	}
	sendCost := sendCosts[tp.Gen(len(sendCosts))]
	opts := &zoekt.SearchOptions{FlushWallTime: flushAfter}
	if tp.Gen(3) == 0 {
		opts.MaxDocDisplayCount = 0
	}
	var viol *hx.Violation
	setViol := func(sig, detail string) {
		if viol == nil {
			viol = &hx.Violation{Sig: sig, Detail: detail}
		}
	}
	var produced, delivered []string
	var prodStats, delStats zoekt.Stats
	inSend := 0
	deliveredAtReturn := -1
	finished := false
	reasons := map[string]int{}
	s, res := hx.Sim(t, tp, cfg, func() {
		down := zoekt.SenderFunc(func(r *zoekt.SearchResult) {
			inSend++
			if inSend > 1 {
				setViol("downstream-sender-entered-concurrently|flush", fmt.Sprintf("%d goroutines are inside the downstream Send at once", inSend))
			}
			simrt.Yield("c25down-enter")
			if sendCost > 0 {
				simrt.Sleep(sendCost) // backpressure
			}
			for _, f := range r.Files {
				delivered = append(delivered, f.FileName)
			}
			delStats.Add(r.Stats)
			reasons[r.FlushReason.String()]++
			simrt.Yield("c25down-exit")
			inSend--
		})
		sender, flush := newFlushCollectSender(opts, down)
		n := 0
		for _, p := range plan {
			if p.gap > 0 {
				simrt.Sleep(p.gap)
			}
			r := &zoekt.SearchResult{}
			for k := 0; k < p.files; k++ {
				n++
				name := fmt.Sprintf("f%03d", n)
				produced = append(produced, name)
				r.Files = append(r.Files, zoekt.FileMatch{FileName: name, Repository: "r", Score: float64(100 - n), LineMatches: []zoekt.LineMatch{{Line: []byte("x"), LineNumber: 1}}})
			}
			r.Stats.MatchCount = p.files
			r.Stats.FileCount = p.files
			r.Stats.ShardsScanned = 1
			r.Stats.FilesConsidered = p.stats
			prodStats.Add(r.Stats)
			sender.Send(r)
		}
		flush()
		deliveredAtReturn = len(delivered)
		// nothing may still be in flight once the final flush has returned
		simrt.Sleep(2 * time.Hour)
		finished = true
	})
	finishSim(s, &res, finished, &viol)
	desc := fmt.Sprintf("FlushWallTime=%s sendCost=%s plan=%+v reasons=%v", flushAfter, sendCost, plan, reasons)
	if viol == nil && res.HarnessErr == "" && finished {
		sp, sd := append([]string(nil), produced...), append([]string(nil), delivered...)
		sort.Strings(sp)
		sort.Strings(sd)
		switch {
		case deliveredAtReturn != len(delivered):
			setViol("delivered-after-final-flush-returned|flush", fmt.Sprintf("%d of %d files reached the downstream sender only after the final flush had returned; %s", len(delivered)-deliveredAtReturn, len(delivered), desc))
		case strings.Join(sp, ",") != strings.Join(sd, ","):
			setViol("files-not-conserved|flush", fmt.Sprintf("produced %v delivered %v; %s", produced, delivered, desc))
		case prodStats.MatchCount != delStats.MatchCount || prodStats.FileCount != delStats.FileCount || prodStats.ShardsScanned != delStats.ShardsScanned || prodStats.FilesConsidered != delStats.FilesConsidered:
			setViol("statistics-not-conserved|flush", fmt.Sprintf("produced %+v delivered %+v; %s", prodStats, delStats, desc))
		}
	}
	res.Violation = viol
	res.Nontrivial = res.Switches >= 2 && len(produced) >= 2
	res.Probes = map[string]int{}
	for k, v := range reasons {
		res.Probes["flush-reason-"+k] += v
	}
	res.Sample = map[string]any{"scenario": desc, "steps": res.Steps, "switches": res.Switches}
	return res
}
