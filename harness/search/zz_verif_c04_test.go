package search

import (
	"fmt"
	"os"
	"testing"

	"github.com/grafana/regexp"

	"github.com/sourcegraph/zoekt"
	"github.com/sourcegraph/zoekt/internal/verifsim/hx"
	"github.com/sourcegraph/zoekt/internal/verifsim/simrt"
	"github.com/sourcegraph/zoekt/query"
)

// C04: search results do not depend on earlier or concurrent searches.

func init() { hx.Register("C04", "C04", runC04) }

func runC04(t *testing.T, tp *simrt.Tape, keepTrace bool) hx.Result {
	cfg := simrt.DrawConfig(tp)
	cfg.KeepTrace = keepTrace
	cfg.MaxProcs = []int{1, 2, 4, 16}[tp.Gen(4)]
	cfg.MaxSteps = 80000
	corpus := getCorpus(tp.Gen(nCorpora))
	cache := []string{"", "1", "1", "2", "2", "8", "64"}[tp.Gen(7)]
	run := &sRun{Corpus: corpus, Width: cfg.MaxProcs, Cap: int64(tp.GenRange(1, 4)), CacheSz: cache}
	sequential := tp.Gen(3) == 0
	nClients := tp.GenRange(1, 4)
	if sequential {
		nClients = 1
	}
	// a small pool of queries biased to repeat Meta atoms with equal and
	// different patterns
	metaVals := []string{"aa", "bb", "^(aa|cc)$", "."}
	var pool []query.Q
	for i := 0; i < 4; i++ {
		switch tp.Gen(3) {
		case 0:
			pool = append(pool, &query.And{Children: []query.Q{&query.Meta{Field: []string{"k", "k", "K"}[tp.Gen(3)], Value: regexp.MustCompile(metaVals[tp.Gen(len(metaVals))])}, genContentAtom(tp, corpus)}})
		case 1:
			pool = append(pool, &query.And{Children: []query.Q{&query.Meta{Field: []string{"k", "K"}[tp.Gen(2)], Value: regexp.MustCompile(metaVals[tp.Gen(2)])}, &query.Substring{Pattern: "needle"}}})
		default:
			pool = append(pool, genQuery(tp, corpus, false))
		}
	}
	for ci := 0; ci < nClients; ci++ {
		var prog []*sCall
		n := tp.GenRange(2, 6)
		for k := 0; k < n; k++ {
			c := &sCall{Kind: []string{"search", "search", "stream", "list"}[tp.Gen(4)]}
			c.Q = pool[tp.Gen(len(pool))]
			c.Opts = genBaseOpts(tp)
			prog = append(prog, c)
		}
		run.Clients = append(run.Clients, prog)
	}
	var viol *hx.Violation
	os.Unsetenv("ZOEKT_DOCMATCHTREE_CACHE")
	s, res, finished := run.execute(t, tp, cfg, func() zoekt.Streamer {
		if cache != "" {
			os.Setenv("ZOEKT_DOCMATCHTREE_CACHE", cache)
		}
		ss := newLoadedSharded(corpus, run.Cap)
		os.Unsetenv("ZOEKT_DOCMATCHTREE_CACHE")
		return ss
	}, nil)
	os.Unsetenv("ZOEKT_DOCMATCHTREE_CACHE")
	finishSim(s, &res, finished, &viol)
	evals := 0
	nonEmpty := false
	mode := "cache-off"
	if cache != "" {
		mode = "cache-on"
	}
	if viol == nil && res.HarnessErr == "" && finished {
	outer:
		for ci, prog := range run.Clients {
			for k, c := range prog {
				where := fmt.Sprintf("client%d call %d/%d %s (cache=%q, %d clients)", ci, k+1, len(prog), c, cache, nClients)
				if c.Panic != "" {
					viol = &hx.Violation{Sig: "panic|" + mode, Detail: where + ": " + c.Panic}
					break outer
				}
				evals++
				if c.Kind == "list" {
					if d := checkList(c, corpus.Shards); d != "" {
						viol = &hx.Violation{Sig: "list-differs-from-fresh-searcher|" + mode, Detail: where + ": " + d}
						break outer
					}
					continue
				}
				want, _, err := refUnion(corpus.Shards, c.Q, &c.Opts)
				if err != nil {
					continue
				}
				if c.Err != nil {
					viol = &hx.Violation{Sig: "unexpected-error|" + mode, Detail: where + ": " + c.Err.Error()}
					break outer
				}
				if st := c.stats(); st.Crashes != 0 {
					viol = &hx.Violation{Sig: "crash-count|" + mode, Detail: fmt.Sprintf("%s: Stats.Crashes=%d", where, st.Crashes)}
					break outer
				}
				got := c.files()
				if d := diffSets(normFiles(got, true), normFiles(want, true)); d != "" {
					viol = &hx.Violation{Sig: "answer-differs-from-fresh-searcher|" + mode, Detail: where + ": " + d}
					break outer
				}
				if len(want) > 0 {
					nonEmpty = true
				}
			}
		}
	}
	res.Violation = viol
	res.Nontrivial = evals > 1 && nonEmpty && (sequential || res.Switches >= 2)
	d := run.describe()
	d["steps"], d["switches"], d["policy"], d["sequential"] = res.Steps, res.Switches, cfg.Policy, sequential
	res.Sample = d
	return res
}
