package search

import (
	"context"
	"errors"
	"fmt"
	"testing"
	"time"

	"github.com/sourcegraph/zoekt"
	"github.com/sourcegraph/zoekt/internal/verifsim/hx"
	"github.com/sourcegraph/zoekt/internal/verifsim/simrt"
)

// C21: match limits and cancellation only remove whole files.

func init() { hx.Register("C21", "C21", runC21) }

func runC21(t *testing.T, tp *simrt.Tape, keepTrace bool) hx.Result {
	cfg := simrt.DrawConfig(tp)
	cfg.KeepTrace = keepTrace
	cfg.MaxProcs = []int{1, 2, 3, 4, 8, 16}[tp.Gen(6)]
	cfg.MaxSteps = 80000
	cfg.Quantum = []time.Duration{0, 0, 100 * time.Microsecond, time.Millisecond}[tp.Gen(4)]
	corpus := getCorpus(tp.Gen(nCorpora))
	run := &sRun{Corpus: corpus, Width: cfg.MaxProcs, Cap: int64(tp.GenRange(1, 4))}
	nClients := tp.GenRange(1, 3)
	lim := func() int { return []int{0, 0, 1, 2, 5, 1000}[tp.Gen(6)] }
	for ci := 0; ci < nClients; ci++ {
		var prog []*sCall
		n := tp.GenRange(1, 2)
		for k := 0; k < n; k++ {
			c := &sCall{Kind: []string{"search", "stream"}[tp.Gen(2)]}
			c.Q = genQuery(tp, corpus, false)
			c.Opts = genBaseOpts(tp)
			c.Opts.ShardMaxMatchCount = lim()
			c.Opts.TotalMaxMatchCount = lim()
			c.Opts.ShardRepoMaxMatchCount = lim()
			switch tp.Gen(5) {
			case 0:
				c.CancelKind = 1
				c.CancelAfter = []time.Duration{0, 0, time.Millisecond, 20 * time.Millisecond}[tp.Gen(4)]
			case 1:
				c.CancelKind = 2
				c.CancelAfter = []time.Duration{time.Nanosecond, time.Millisecond, 20 * time.Millisecond, time.Second}[tp.Gen(4)]
			case 2:
				c.Opts.MaxWallTime = []time.Duration{time.Nanosecond, time.Millisecond, 20 * time.Millisecond, time.Second}[tp.Gen(4)]
			}
			prog = append(prog, c)
		}
		run.Clients = append(run.Clients, prog)
	}
	var viol *hx.Violation
	s, res, finished := run.execute(t, tp, cfg, func() zoekt.Streamer {
		return &typeRepoSearcher{Streamer: newLoadedSharded(corpus, run.Cap)}
	}, nil)
	finishSim(s, &res, finished, &viol)
	evals := 0
	nonEmpty := false
	if res.Probes == nil {
		res.Probes = map[string]int{}
	}
	if viol == nil && res.HarnessErr == "" && finished {
	outer:
		for ci, prog := range run.Clients {
			for k, c := range prog {
				where := fmt.Sprintf("client%d call %d %s", ci, k, c)
				if c.Panic != "" {
					viol = &hx.Violation{Sig: "panic|" + c.Kind, Detail: where + ": " + c.Panic}
					break outer
				}
				evals++
				unl := c.Opts
				unl.ShardMaxMatchCount, unl.TotalMaxMatchCount, unl.ShardRepoMaxMatchCount, unl.MaxWallTime = 0, 0, 0, 0
				want, _, err := refUnion(corpus.Shards, c.Q, &unl)
				if err != nil {
					continue
				}
				mayFail := c.CancelKind != 0
				if c.Err != nil {
					if !mayFail {
						viol = &hx.Violation{Sig: "error-without-cancellation|" + c.Kind, Detail: where + ": " + c.Err.Error()}
						break outer
					}
					if !errors.Is(c.Err, context.Canceled) && !errors.Is(c.Err, context.DeadlineExceeded) {
						viol = &hx.Violation{Sig: "non-context-error-after-cancel|" + c.Kind, Detail: where + ": " + c.Err.Error()}
						break outer
					}
					res.Probes["returned-ctx-error"]++
				}
				if st := c.stats(); st.Crashes != 0 {
					viol = &hx.Violation{Sig: "crash-count|" + c.Kind, Detail: fmt.Sprintf("%s: Stats.Crashes=%d", where, st.Crashes)}
					break outer
				}
				got := c.files()
				wantSet := map[string]int{}
				w := want
				g := got
				for _, x := range normFiles(w, false) {
					wantSet[x]++
				}
				for _, x := range normFiles(g, false) {
					if wantSet[x] == 0 {
						if len(x) > 500 {
							x = x[:500] + "..."
						}
						viol = &hx.Violation{Sig: "file-not-in-unlimited-result|" + c.Kind, Detail: fmt.Sprintf("%s: returned %s which the unlimited, uncancelled search does not return in this form (%d reference files)", where, x, len(want))}
						break outer
					}
					wantSet[x]--
				}
				if len(got) < len(want) {
					res.Probes["files-removed-by-limit-or-cancel"]++
				}
				if c.cancelled {
					res.Probes["cancelled-in-flight"]++
					// promptness: with no time jumps and zero-cost steps, simulated time
					// only advances when every task is blocked, so a cancelled call that
					// returns at a later instant waited for a timer after cancellation.
					if cfg.JumpPerMille == 0 && cfg.Quantum == 0 && c.RetTime != c.CanTime {
						viol = &hx.Violation{Sig: "cancelled-search-not-prompt|" + c.Kind, Detail: fmt.Sprintf("%s: cancelled at t=%v returned at t=%v", where, c.CanTime, c.RetTime)}
						break outer
					}
				}
				if len(got) > 0 {
					nonEmpty = true
				}
			}
		}
	}
	res.Violation = viol
	res.Nontrivial = res.Switches >= 2 && evals > 0 && nonEmpty
	d := run.describe()
	d["steps"], d["switches"], d["policy"], d["quantum"] = res.Steps, res.Switches, cfg.Policy, cfg.Quantum.String()
	res.Sample = d
	return res
}
