package search

import (
	"io"
	"log"
	"testing"

	"github.com/sourcegraph/zoekt/internal/verifsim/hx"
)

func TestVerif(t *testing.T) {
	log.SetOutput(io.Discard)
	// process-wide lazily initialised state is set up before the first run so that
	// a run does not depend on which runs the process executed before it
	_ = shardRecoveryLogger()
	hx.Main(t)
}
