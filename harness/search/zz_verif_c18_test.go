package search

import (
	"fmt"
	"testing"
	"time"

	"github.com/sourcegraph/zoekt"
	"github.com/sourcegraph/zoekt/internal/verifsim/hx"
	"github.com/sourcegraph/zoekt/internal/verifsim/simrt"
	"github.com/sourcegraph/zoekt/query"
)

// C18: the sharded searcher returns the union of per-shard answers.

func init() { hx.Register("C18", "C18", runC18) }

func runC18(t *testing.T, tp *simrt.Tape, keepTrace bool) hx.Result {
	cfg := simrt.DrawConfig(tp)
	cfg.KeepTrace = keepTrace
	cfg.MaxProcs = []int{1, 2, 3, 4, 8, 16}[tp.Gen(6)]
	cfg.MaxSteps = 60000
	corpus := getCorpus(tp.Gen(nCorpora))
	run := &sRun{Corpus: corpus, Width: cfg.MaxProcs, Cap: int64(tp.GenRange(1, 4))}
	nClients := tp.GenRange(1, 3)
	for ci := 0; ci < nClients; ci++ {
		var prog []*sCall
		n := tp.GenRange(1, 2)
		for k := 0; k < n; k++ {
			c := &sCall{Kind: []string{"search", "stream", "list", "search"}[tp.Gen(4)]}
			c.Q = genQuery(tp, corpus, true)
			c.Opts = genBaseOpts(tp)
			if c.Kind == "stream" {
				c.Opts.FlushWallTime = []time.Duration{0, 0, time.Millisecond, 500 * time.Millisecond}[tp.Gen(4)]
			}
			if c.Kind == "list" {
				switch tp.Gen(3) {
				case 1:
					c.LOpt = &zoekt.ListOptions{Field: zoekt.RepoListFieldRepos}
				case 2:
					c.LOpt = &zoekt.ListOptions{Field: zoekt.RepoListFieldReposMap}
				}
			}
			prog = append(prog, c)
		}
		run.Clients = append(run.Clients, prog)
	}
	var viol *hx.Violation
	s, res, finished := run.execute(t, tp, cfg, func() zoekt.Streamer {
		return &typeRepoSearcher{Streamer: newLoadedSharded(corpus, run.Cap)}
	}, nil)
	finishSim(s, &res, finished, &viol)
	evals := 0
	nonEmpty := false
	if viol == nil && res.HarnessErr == "" && finished {
	outer:
		for ci, prog := range run.Clients {
			for k, c := range prog {
				if c.Panic != "" {
					viol = &hx.Violation{Sig: "panic|" + c.Kind, Detail: fmt.Sprintf("client%d call %d %s: %s", ci, k, c, c.Panic)}
					break outer
				}
				evals++
				if c.Kind == "list" {
					rq, err := refTypeRepo(corpus.Shards, c.Q)
					if err != nil {
						continue
					}
					cc := *c
					cc.Q = rq
					if d := checkList(&cc, corpus.Shards); d != "" {
						viol = &hx.Violation{Sig: "list-differs-from-per-shard-union|list", Detail: fmt.Sprintf("client%d call %d %s: %s", ci, k, c, d)}
						break outer
					}
					if c.List != nil && len(c.List.Repos)+len(c.List.ReposMap) > 0 {
						nonEmpty = true
					}
					continue
				}
				rq, err := refTypeRepo(corpus.Shards, c.Q)
				if err != nil {
					continue
				}
				want, _, err := refUnion(corpus.Shards, rq, &c.Opts)
				if err != nil {
					if c.Err == nil {
						viol = &hx.Violation{Sig: "error-lost|" + c.Kind, Detail: fmt.Sprintf("client%d call %d %s: a shard on its own fails with %v but the sharded search succeeded", ci, k, c, err)}
						break outer
					}
					continue
				}
				if c.Err != nil {
					viol = &hx.Violation{Sig: "unexpected-error|" + c.Kind, Detail: fmt.Sprintf("client%d call %d %s: %v", ci, k, c, c.Err)}
					break outer
				}
				if st := c.stats(); st.Crashes != 0 {
					viol = &hx.Violation{Sig: "crash-count|" + c.Kind, Detail: fmt.Sprintf("client%d call %d %s: Stats.Crashes=%d", ci, k, c, st.Crashes)}
					break outer
				}
				got := c.files()
				if d := diffSets(normFiles(got, false), normFiles(want, false)); d != "" {
					viol = &hx.Violation{Sig: "files-differ-from-per-shard-union|" + c.Kind, Detail: fmt.Sprintf("client%d call %d %s: %s", ci, k, c, d)}
					break outer
				}
				if len(want) > 0 {
					nonEmpty = true
				}
			}
		}
	}
	res.Violation = viol
	res.Nontrivial = res.Switches >= 2 && evals > 0 && nonEmpty
	d := run.describe()
	d["steps"], d["switches"], d["policy"] = res.Steps, res.Switches, cfg.Policy
	res.Sample = d
	return res
}

func hasBranchesRepos(q query.Q) bool {
	found := false
	query.VisitAtoms(q, func(a query.Q) {
		if _, ok := a.(*query.BranchesRepos); ok {
			found = true
		}
	})
	return found
}

func stripBranches(fs []zoekt.FileMatch) []zoekt.FileMatch {
	out := append([]zoekt.FileMatch(nil), fs...)
	for i := range out {
		out[i].Branches = nil
	}
	return out
}
