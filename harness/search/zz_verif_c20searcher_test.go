package search

import (
	"context"
	"errors"
	"fmt"
	"testing"
	"time"

	"github.com/sourcegraph/zoekt"
	"github.com/sourcegraph/zoekt/internal/verifsim/hx"
	"github.com/sourcegraph/zoekt/internal/verifsim/simrt"
	"github.com/sourcegraph/zoekt/query"
)

// C20/searcher: slot discipline of the sharded searcher. The real
// shardedSearcher (scheduler, worker pool, collect/limit senders) runs over stub
// shards whose every call follows a generated script: answer, fail with an
// error, panic, take longer than the interactive time slice (the search is
// then moved to the batch queue), or block until the caller's context is done.
// Clients search, stream and list with and without cancellation. Per step the
// semaphores never exceed their capacities; when all calls have returned both
// semaphores must be empty (every acquired slot released exactly once on
// every return path) and `capacity` fresh searches must get through.

func init() {
	hx.Register("C20/searcher", "C20", func(t *testing.T, tp *simrt.Tape, keep bool) hx.Result { return runC20Searcher(t, tp, keep, "C20") })
	// the same runs judged for C25: every file and every statistics counter a shard
	// handed in is delivered to the caller exactly once
	hx.Register("C25/searcher", "C25", func(t *testing.T, tp *simrt.Tape, keep bool) hx.Result { return runC20Searcher(t, tp, keep, "C25") })
}

type c20CallKey struct{}

// c20Produced counts, per client call, what the stub shards handed in.
type c20Produced struct {
	files, matches, shards int
}

type c20StubAct struct {
	kind string // ok error panic slow block
	d    time.Duration
}

type c20Stub struct {
	name   string
	repo   zoekt.Repository
	script []c20StubAct
	next   int
	calls  *int
}

func (s *c20Stub) act() c20StubAct {
	if len(s.script) == 0 {
		return c20StubAct{kind: "ok"}
	}
	a := s.script[s.next%len(s.script)]
	s.next++
	*s.calls++
	return a
}

func (s *c20Stub) run(ctx context.Context) error {
	a := s.act()
	switch a.kind {
	case "error":
		return errors.New("stub shard " + s.name + ": cannot evaluate")
	case "panic":
		panic("stub shard " + s.name + ": corrupt")
	case "slow":
		simrt.Sleep(a.d)
	case "block":
		// wait for the caller's context (polling on the fake clock: a raw select
		// would be a blocking operation the scheduler does not know about)
		for waited := time.Duration(0); waited < a.d; waited += 20 * time.Millisecond {
			if ctx.Err() != nil {
				return ctx.Err()
			}
			simrt.Sleep(20 * time.Millisecond)
		}
	}
	return nil
}

func (s *c20Stub) Search(ctx context.Context, q query.Q, opts *zoekt.SearchOptions) (*zoekt.SearchResult, error) {
	if err := s.run(ctx); err != nil {
		return nil, err
	}
	if p, ok := ctx.Value(c20CallKey{}).(*c20Produced); ok {
		p.files++
		p.matches++
		p.shards++
	}
	return &zoekt.SearchResult{Files: []zoekt.FileMatch{{FileName: "f-" + s.name, Repository: s.repo.Name, RepositoryID: s.repo.ID, Score: 1,
		LineMatches: []zoekt.LineMatch{{Line: []byte("needle"), LineNumber: 1}}}}, Stats: zoekt.Stats{MatchCount: 1, FileCount: 1, ShardsScanned: 1}}, nil
}

func (s *c20Stub) List(ctx context.Context, q query.Q, opts *zoekt.ListOptions) (*zoekt.RepoList, error) {
	// the listing made while the shard is being loaded must succeed
	if *s.calls >= 0 {
		if err := s.run(ctx); err != nil {
			return nil, err
		}
	}
	return &zoekt.RepoList{Repos: []*zoekt.RepoListEntry{{Repository: s.repo}}}, nil
}

func (s *c20Stub) Close()         {}
func (s *c20Stub) String() string { return "stub:" + s.name }

func runC20Searcher(t *testing.T, tp *simrt.Tape, keepTrace bool, prop string) hx.Result {
	cfg := simrt.DrawConfig(tp)
	cfg.KeepTrace = keepTrace
	cfg.MaxSteps = 60000
	cfg.MaxProcs = []int{1, 2, 4}[tp.Gen(3)]
	capacity := int64(tp.GenRange(1, 4))
	slice := []time.Duration{time.Millisecond, 100 * time.Millisecond, 5 * time.Second}[tp.Gen(3)]
	nShards := tp.GenRange(1, 5)
	durs := []time.Duration{time.Millisecond, 50 * time.Millisecond, 2 * time.Second, 6 * time.Second}
	kinds := []string{"ok", "ok", "ok", "error", "panic", "slow", "slow", "block"}
	type shardPlan struct{ script []c20StubAct }
	var splans []shardPlan
	for i := 0; i < nShards; i++ {
		var sp shardPlan
		n := tp.GenRange(1, 4)
		for k := 0; k < n; k++ {
			sp.script = append(sp.script, c20StubAct{kind: kinds[tp.Gen(len(kinds))], d: durs[tp.Gen(len(durs))]})
		}
		splans = append(splans, sp)
	}
	nClients := tp.GenRange(1, 4)
	type call struct {
		kind     int // 0 search 1 stream 2 list
		ctxKind  int // 0 background 1 timeout 2 cancel
		ctxAfter time.Duration
		gap      time.Duration
		flush    time.Duration
		total    int
	}
	var cplans [][]call
	for i := 0; i < nClients; i++ {
		var cs []call
		n := tp.GenRange(1, 4)
		for k := 0; k < n; k++ {
			cs = append(cs, call{kind: tp.Gen(3), ctxKind: tp.Gen(3), ctxAfter: durs[tp.Gen(len(durs))], gap: []time.Duration{0, time.Millisecond, time.Second}[tp.Gen(3)],
				flush: []time.Duration{0, 10 * time.Millisecond, time.Hour}[tp.Gen(3)], total: []int{0, 0, 1, 2}[tp.Gen(4)]})
		}
		cplans = append(cplans, cs)
	}
	var viol *hx.Violation
	setViol := func(sig, detail string) {
		if viol == nil {
			viol = &hx.Violation{Sig: sig, Detail: detail}
		}
	}
	finished := false
	evals := 0
	errs, cancels, oks := 0, 0, 0
	var leakI, leakB int64 = -1, -1
	desc := fmt.Sprintf("capacity=%d slice=%s shards=%+v clients=%+v width=%d", capacity, slice, splans, cplans, cfg.MaxProcs)
	s, res := hx.Sim(t, tp, cfg, func() {
		ss := newShardedSearcher(capacity)
		ms, _ := ss.sched.(*multiScheduler)
		if ms == nil {
			setViol("harness|scheduler-type", "the sharded searcher does not use a multiScheduler")
			return
		}
		ms.interactiveDuration = slice
		calls := -1 // < 0: loading
		m := map[string]zoekt.Searcher{}
		for i, sp := range splans {
			name := fmt.Sprintf("s%d", i)
			m[name] = &c20Stub{name: name, repo: zoekt.Repository{ID: uint32(i + 1), Name: "r" + name}, script: sp.script, calls: &calls}
		}
		ss.replace(m)
		ss.markReady()
		calls = 0
		batchCap := ms.semBatch.sem.PeekSize()
		simrt.OnStep(func() error {
			if viol != nil {
				return fmt.Errorf("violation")
			}
			evals++
			if c := ms.semInteractive.sem.PeekCur(); c > capacity || c < 0 {
				setViol("over-capacity|interactive", fmt.Sprintf("interactive occupancy %d, capacity %d; %s", c, capacity, desc))
			}
			if c := ms.semBatch.sem.PeekCur(); c > batchCap || c < 0 {
				setViol("over-capacity|batch", fmt.Sprintf("batch occupancy %d, capacity %d; %s", c, batchCap, desc))
			}
			if viol != nil {
				return fmt.Errorf("violation")
			}
			return nil
		})
		done := make(chan int, nClients)
		for ci := range cplans {
			ci := ci
			simrt.GoNamed(fmt.Sprintf("client%d", ci), func() {
				defer func() { simrt.Send(done, "c20sdone")(ci) }()
				for _, c := range cplans[ci] {
					if c.gap > 0 {
						simrt.Sleep(c.gap)
					}
					ctx := refCtx()
					var cancel context.CancelFunc = func() {}
					switch c.ctxKind {
					case 1:
						ctx, cancel = context.WithTimeout(ctx, c.ctxAfter)
					case 2:
						ctx, cancel = context.WithCancel(ctx)
						after, cf := c.ctxAfter, cancel
						simrt.GoNamed("canceller", func() {
							simrt.Sleep(after)
							cf()
						})
					}
					produced := &c20Produced{}
					ctx = context.WithValue(ctx, c20CallKey{}, produced)
					delivered := c20Produced{}
					var err error
					func() {
						defer func() {
							if r := recover(); r != nil {
								setViol("panic-escaped-to-caller|searcher", fmt.Sprintf("%v; %s", r, desc))
							}
						}()
						q := &query.Substring{Pattern: "needle"}
						switch c.kind {
						case 0:
							var r *zoekt.SearchResult
							r, err = ss.Search(ctx, q, &zoekt.SearchOptions{TotalMaxMatchCount: c.total})
							if r != nil {
								delivered.files, delivered.matches, delivered.shards = len(r.Files), r.Stats.MatchCount, r.Stats.ShardsScanned
							}
						case 1:
							err = ss.StreamSearch(ctx, q, &zoekt.SearchOptions{FlushWallTime: c.flush, TotalMaxMatchCount: c.total}, zoekt.SenderFunc(func(r *zoekt.SearchResult) {
								delivered.files += len(r.Files)
								delivered.matches += r.Stats.MatchCount
								delivered.shards += r.Stats.ShardsScanned
							}))
						default:
							_, err = ss.List(ctx, q, nil)
						}
					}()
					cancel()
					if prop == "C25" && err == nil && c.kind != 2 && *produced != delivered {
						setViol("result-handed-in-by-a-shard-not-delivered|searcher", fmt.Sprintf("a %s (TotalMaxMatchCount=%d, FlushWallTime=%s) returned without error; its shards handed in %+v (files, matches, shards scanned) but the caller received %+v; %s", []string{"Search", "StreamSearch"}[c.kind], c.total, c.flush, *produced, delivered, desc))
					}
					switch {
					case err == nil:
						oks++
					case errors.Is(err, context.Canceled) || errors.Is(err, context.DeadlineExceeded):
						cancels++
					default:
						errs++
					}
				}
			})
		}
		for range cplans {
			simrt.Recv(done, "c20smain")
		}
		simrt.Calm()
		// every call has returned: nothing may be held any more
		leakI, leakB = ms.semInteractive.sem.PeekCur(), ms.semBatch.sem.PeekCur()
		if leakI == 0 && leakB == 0 {
			// and the full capacity is usable again
			var procs []*process
			for i := int64(0); i < capacity; i++ {
				ctx, cancel := context.WithTimeout(context.Background(), time.Minute)
				p, err := ms.Acquire(ctx)
				cancel()
				if err != nil {
					setViol("capacity-not-available-after-all-searches-returned|searcher", fmt.Sprintf("fresh acquisition %d of %d failed: %v; %s", i+1, capacity, err, desc))
					break
				}
				procs = append(procs, p)
			}
			for _, p := range procs {
				p.Release()
			}
		}
		ss.Close()
		finished = true
	})
	finishSim(s, &res, finished, &viol)
	if prop == "C20" && viol == nil && res.HarnessErr == "" && finished && (leakI != 0 || leakB != 0) {
		viol = &hx.Violation{Sig: "slot-leak|searcher", Detail: fmt.Sprintf("all searches, streams and listings have returned (ok %d, cancelled %d, failed %d) but the interactive semaphore still holds %d and the batch semaphore %d slot(s); %s", oks, cancels, errs, leakI, leakB, desc)}
	}
	res.Violation = viol
	res.Nontrivial = res.Switches >= 2 && evals > 0 && oks+cancels+errs >= 2
	res.Probes = map[string]int{"call-returned-shard-error": errs, "call-cancelled": cancels, "call-ok": oks}
	res.Sample = map[string]any{"scenario": desc, "steps": res.Steps, "switches": res.Switches, "ok": oks, "cancelled": cancels, "failed": errs}
	return res
}
