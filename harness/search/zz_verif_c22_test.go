package search

import (
	"bytes"
	"fmt"
	"math"
	"path"
	"sort"
	"strings"
	"testing"
	"time"

	"github.com/sourcegraph/zoekt"
	"github.com/sourcegraph/zoekt/internal/verifsim/hx"
	"github.com/sourcegraph/zoekt/internal/verifsim/simrt"
)

// C22: display limits return the top of the ranked result.
// C29 monitors (finite scores, order) are applied to every result as well.

func init() { hx.Register("C22", "C22", runC22) }

func matchCount(f *zoekt.FileMatch, chunk bool) int {
	n := 0
	if chunk {
		for _, cm := range f.ChunkMatches {
			n += len(cm.Ranges)
		}
		return n
	}
	for _, lm := range f.LineMatches {
		n += len(lm.LineFragments)
	}
	return n
}

func identKey(f *zoekt.FileMatch) string { return f.Repository + "\x00" + f.FileName }

// isMatchPrefix reports whether got's matches are a leading prefix of ref's
// (cut == true if strictly fewer) and describes the first problem otherwise.
func isMatchPrefix(got, ref *zoekt.FileMatch, chunk bool, ctxLines int, content []byte) (cut bool, problem string) {
	if chunk {
		if len(got.ChunkMatches) > len(ref.ChunkMatches) {
			return false, "more chunks than the unlimited result"
		}
		for i := range got.ChunkMatches {
			g, r := &got.ChunkMatches[i], &ref.ChunkMatches[i]
			if g.ContentStart != r.ContentStart || g.FileName != r.FileName {
				return false, fmt.Sprintf("chunk %d starts at %+v, unlimited result %+v", i, g.ContentStart, r.ContentStart)
			}
			if len(g.Ranges) > len(r.Ranges) {
				return false, fmt.Sprintf("chunk %d has more ranges than the unlimited result", i)
			}
			for j := range g.Ranges {
				if g.Ranges[j] != r.Ranges[j] {
					return false, fmt.Sprintf("chunk %d range %d = %+v, unlimited result %+v", i, j, g.Ranges[j], r.Ranges[j])
				}
			}
			if len(g.Ranges) == 0 {
				return false, fmt.Sprintf("chunk %d has no ranges", i)
			}
			if len(g.Ranges) < len(r.Ranges) {
				cut = true
				if i != len(got.ChunkMatches)-1 {
					return false, fmt.Sprintf("chunk %d is shortened but is not the last chunk", i)
				}
				// whole lines covering exactly the remaining ranges plus context
				if !g.FileName && content != nil {
					lines := bytes.SplitAfter(content, []byte("\n"))
					if len(lines) > 0 && len(lines[len(lines)-1]) == 0 {
						lines = lines[:len(lines)-1]
					}
					first := int(g.ContentStart.LineNumber)
					last := int(g.Ranges[len(g.Ranges)-1].End.LineNumber) + ctxLines
					if last > len(lines) {
						last = len(lines)
					}
					var exp []byte
					for l := first; l <= last && l >= 1; l++ {
						exp = append(exp, lines[l-1]...)
					}
					exp = bytes.TrimSuffix(exp, []byte("\n"))
					if !bytes.Equal(bytes.TrimSuffix(g.Content, []byte("\n")), exp) {
						// Known finding: the number of lines removed is the distance between
						// the old and the new last range, which removes too much when the
						// context after the old last range was clipped by the end of the file.
						origLast := int(r.Ranges[len(r.Ranges)-1].End.LineNumber)
						if origLast+ctxLines > len(lines) && ctxLines > 0 {
							newLast := int(g.Ranges[len(g.Ranges)-1].End.LineNumber)
							altEnd := len(lines) - (origLast - newLast)
							var alt []byte
							for l := first; l <= altEnd && l >= 1; l++ {
								alt = append(alt, lines[l-1]...)
							}
							alt = bytes.TrimSuffix(alt, []byte("\n"))
							if altEnd >= newLast && altEnd < last && bytes.Equal(bytes.TrimSuffix(g.Content, []byte("\n")), alt) {
								return false, fmt.Sprintf("EOFCLIP shortened chunk %d content %q has %d context line(s) fewer than requested (expected whole lines %d..%d); the unshortened chunk's trailing context was clipped by the end of the file", i, g.Content, last-altEnd, first, last)
							}
						}
						return false, fmt.Sprintf("shortened chunk %d content %q, expected whole lines %d..%d = %q", i, g.Content, first, last, exp)
					}
				}
			} else if !bytes.Equal(g.Content, r.Content) {
				return false, fmt.Sprintf("chunk %d content differs from the unlimited result", i)
			}
		}
		if len(got.ChunkMatches) < len(ref.ChunkMatches) {
			cut = true
		}
		return cut, ""
	}
	if len(got.LineMatches) > len(ref.LineMatches) {
		return false, "more line matches than the unlimited result"
	}
	for i := range got.LineMatches {
		g, r := &got.LineMatches[i], &ref.LineMatches[i]
		if g.LineNumber != r.LineNumber || !bytes.Equal(g.Line, r.Line) || g.LineStart != r.LineStart || g.LineEnd != r.LineEnd || !bytes.Equal(g.Before, r.Before) || !bytes.Equal(g.After, r.After) {
			return false, fmt.Sprintf("line match %d (line %d) differs from the unlimited result (line %d)", i, g.LineNumber, r.LineNumber)
		}
		if len(g.LineFragments) > len(r.LineFragments) {
			return false, fmt.Sprintf("line match %d has more fragments than the unlimited result", i)
		}
		for j := range g.LineFragments {
			if g.LineFragments[j].LineOffset != r.LineFragments[j].LineOffset || g.LineFragments[j].Offset != r.LineFragments[j].Offset || g.LineFragments[j].MatchLength != r.LineFragments[j].MatchLength {
				return false, fmt.Sprintf("line match %d fragment %d differs", i, j)
			}
		}
		if len(g.LineFragments) == 0 {
			return false, fmt.Sprintf("line match %d has no fragments", i)
		}
		if len(g.LineFragments) < len(r.LineFragments) {
			cut = true
			if i != len(got.LineMatches)-1 {
				return false, fmt.Sprintf("line match %d is shortened but is not the last one", i)
			}
		}
	}
	if len(got.LineMatches) < len(ref.LineMatches) {
		cut = true
	}
	return cut, ""
}

// checkOrder: C29 monitors on one ranked list.
func checkOrder(fs []zoekt.FileMatch, chunk bool) string {
	for i := range fs {
		f := &fs[i]
		if math.IsNaN(f.Score) || math.IsInf(f.Score, 0) {
			return fmt.Sprintf("file %s/%s has score %v", f.Repository, f.FileName, f.Score)
		}
		prev := math.Inf(1)
		for _, lm := range f.LineMatches {
			if math.IsNaN(lm.Score) || math.IsInf(lm.Score, 0) {
				return fmt.Sprintf("line match in %s has score %v", f.FileName, lm.Score)
			}
			if lm.Score > prev {
				return fmt.Sprintf("line matches of %s/%s not ordered by non-increasing score (%v after %v)", f.Repository, f.FileName, lm.Score, prev)
			}
			prev = lm.Score
		}
		prev = math.Inf(1)
		for _, cm := range f.ChunkMatches {
			if math.IsNaN(cm.Score) || math.IsInf(cm.Score, 0) {
				return fmt.Sprintf("chunk match in %s has score %v", f.FileName, cm.Score)
			}
			if cm.Score > prev {
				return fmt.Sprintf("chunk matches of %s/%s not ordered by non-increasing score (%v after %v)", f.Repository, f.FileName, cm.Score, prev)
			}
			prev = cm.Score
		}
	}
	// files non-increasing except the single promotion into third place
	exceptions := 0
	for i := 1; i < len(fs); i++ {
		if fs[i].Score > fs[i-1].Score {
			// allowed: fs[i-1] is the promoted file at index 2
			if i-1 == 2 {
				exceptions++
				// the promoted one must not break order between 1 and 3
				if fs[3].Score > fs[1].Score {
					return fmt.Sprintf("files not ordered: index 3 score %v > index 1 score %v", fs[3].Score, fs[1].Score)
				}
				continue
			}
			return fmt.Sprintf("files not ordered by non-increasing score at index %d (%v after %v)", i, fs[i].Score, fs[i-1].Score)
		}
	}
	if exceptions > 0 {
		ext := path.Ext(fs[2].FileName)
		if ext == path.Ext(fs[0].FileName) || ext == path.Ext(fs[1].FileName) {
			return fmt.Sprintf("file at index 2 (%s, score %v) is out of order but its extension is not novel", fs[2].FileName, fs[2].Score)
		}
	}
	return ""
}

func runC22(t *testing.T, tp *simrt.Tape, keepTrace bool) hx.Result {
	cfg := simrt.DrawConfig(tp)
	cfg.KeepTrace = keepTrace
	cfg.MaxProcs = []int{1, 2, 3, 4, 8, 16}[tp.Gen(6)]
	cfg.MaxSteps = 80000
	cfg.Quantum = []time.Duration{0, 0, 100 * time.Microsecond, time.Millisecond}[tp.Gen(4)]
	corpus := getCorpus(tp.Gen(nCorpora))
	run := &sRun{Corpus: corpus, Width: cfg.MaxProcs, Cap: int64(tp.GenRange(1, 4))}
	nClients := tp.GenRange(1, 2)
	for ci := 0; ci < nClients; ci++ {
		var prog []*sCall
		n := tp.GenRange(1, 2)
		for k := 0; k < n; k++ {
			c := &sCall{Kind: []string{"search", "stream", "search"}[tp.Gen(3)]}
			// broad queries so that limits bite
			switch tp.Gen(3) {
			case 0:
				c.Q = genContentAtom(tp, corpus)
			default:
				c.Q = genQuery(tp, corpus, false)
			}
			if tp.Gen(2) == 0 {
				c.Opts.ChunkMatches = true
			}
			c.Opts.NumContextLines = []int{0, 0, 1, 2}[tp.Gen(4)]
			c.Opts.MaxDocDisplayCount = []int{0, 1, 2, 3, 5, 100}[tp.Gen(6)]
			c.Opts.MaxMatchDisplayCount = []int{0, 1, 2, 3, 7, 100}[tp.Gen(6)]
			c.Opts.UseBM25Scoring = tp.Gen(4) == 0
			if c.Kind == "stream" {
				c.Opts.FlushWallTime = []time.Duration{0, time.Microsecond, time.Millisecond, 500 * time.Millisecond}[tp.Gen(4)]
			}
			prog = append(prog, c)
		}
		run.Clients = append(run.Clients, prog)
	}
	var viol *hx.Violation
	s, res, finished := run.execute(t, tp, cfg, func() zoekt.Streamer {
		return &typeRepoSearcher{Streamer: newLoadedSharded(corpus, run.Cap)}
	}, nil)
	finishSim(s, &res, finished, &viol)
	evals := 0
	nonEmpty := false
	var viols []hx.Violation
	seenSig := map[string]bool{}
	report := func(sig, detail string) {
		if !seenSig[sig] {
			seenSig[sig] = true
			viols = append(viols, hx.Violation{Sig: sig, Detail: detail})
		}
	}
	if res.Probes == nil {
		res.Probes = map[string]int{}
	}
	docContent := map[string][]byte{}
	for _, r := range corpus.Repos {
		for _, d := range r.Docs {
			docContent[r.Repo.Name+"\x00"+d.Name] = d.Content
		}
	}
	if viol == nil && res.HarnessErr == "" && finished {
		for ci, prog := range run.Clients {
		calls:
			for k, c := range prog {
				where := fmt.Sprintf("client%d call %d %s", ci, k, c)
				if c.Panic != "" {
					report("panic|" + c.Kind, where + ": " + c.Panic)
					continue calls
				}
				if c.Err != nil {
					report("unexpected-error|" + c.Kind, where + ": " + c.Err.Error())
					continue calls
				}
				evals++
				unl := c.Opts
				unl.MaxDocDisplayCount, unl.MaxMatchDisplayCount, unl.FlushWallTime = 0, 0, 0
				want, _, err := refUnion(corpus.Shards, c.Q, &unl)
				if err != nil {
					continue
				}
				ref := map[string]*zoekt.FileMatch{}
				dup := false
				for i := range want {
					if _, ok := ref[identKey(&want[i])]; ok {
						dup = true
					}
					ref[identKey(&want[i])] = &want[i]
				}
				if dup {
					// one document indexed twice under different branch sets: identity by
					// (repo, name) is ambiguous; skip this call.
					continue
				}
				got := c.files()
				chunk := c.Opts.ChunkMatches
				// The ranked, display-limited result is assembled by ranking and
				// truncating the partial aggregate each time a per-repository chunk
				// arrives. With matches from a single chunk that is exact; with several
				// chunks it is a known deviation (see known-findings.jsonl), so the
				// "top of the unlimited ranking" conditions get their own signature
				// class there.
				class := "single-chunk"
				{
					chunks := map[string]bool{}
					for _, im := range corpus.Shards {
						r, err := refSearchShard(im, c.Q, &unl)
						if err != nil {
							continue
						}
						for i := range r.Files {
							chunks[im.Key+"\x00"+r.Files[i].Repository] = true
						}
					}
					if len(chunks) > 1 {
						class = "multi-chunk"
					}
				}
				docLim, matchLim := c.Opts.MaxDocDisplayCount, c.Opts.MaxMatchDisplayCount
				total := 0
				for i := range got {
					total += matchCount(&got[i], chunk)
				}
				if docLim > 0 && len(got) > docLim {
					report("doc-limit-exceeded|" + c.Kind, fmt.Sprintf("%s: %d files returned", where, len(got)))
					continue calls
				}
				if matchLim > 0 && total > matchLim {
					report("match-limit-exceeded|" + c.Kind, fmt.Sprintf("%s: %d matches returned", where, total))
					continue calls
				}
				seen := map[string]bool{}
				for i := range got {
					g := &got[i]
					r, ok := ref[identKey(g)]
					if !ok {
						report("file-not-in-unlimited-result|" + c.Kind, fmt.Sprintf("%s: %s/%s", where, g.Repository, g.FileName))
						continue calls
					}
					if seen[identKey(g)] {
						report("file-returned-twice|" + c.Kind, fmt.Sprintf("%s: %s/%s", where, g.Repository, g.FileName))
						continue calls
					}
					seen[identKey(g)] = true
					if math.Abs(g.Score-r.Score) > 1e-9*math.Max(1, math.Abs(r.Score)) {
						report("score-differs-from-unlimited|" + c.Kind, fmt.Sprintf("%s: %s/%s score %v, unlimited %v", where, g.Repository, g.FileName, g.Score, r.Score))
						continue calls
					}
					cut, prob := isMatchPrefix(g, r, chunk, c.Opts.NumContextLines, docContent[identKey(g)])
					if strings.HasPrefix(prob, "EOFCLIP ") {
						report("shortened-chunk-loses-context-when-original-clipped-at-eof|" + c.Kind, fmt.Sprintf("%s: %s/%s: %s", where, g.Repository, g.FileName, prob[8:]))
						continue calls
					}
					if prob != "" {
						report("not-a-leading-prefix|" + c.Kind, fmt.Sprintf("%s: %s/%s: %s", where, g.Repository, g.FileName, prob))
						continue calls
					}
					if cut {
						res.Probes["file-cut-at-limit"]++
						if c.Kind == "search" && i != len(got)-1 {
							report("cut-file-not-last|" + class + "|" + c.Kind, fmt.Sprintf("%s: %s/%s is shortened but is file %d of %d", where, g.Repository, g.FileName, i+1, len(got)))
							continue calls
						}
						if matchLim == 0 || total != matchLim {
							report("cut-without-exhausted-limit|" + class + "|" + c.Kind, fmt.Sprintf("%s: %s/%s is shortened but %d matches returned, limit %d", where, g.Repository, g.FileName, total, matchLim))
							continue calls
						}
					}
				}
				exhausted := (docLim > 0 && len(got) == docLim) || (matchLim > 0 && total == matchLim)
				if len(got) < len(want) && !exhausted {
					report("files-missing-without-exhausted-limit|" + c.Kind, fmt.Sprintf("%s: %d of %d files returned, %d matches", where, len(got), len(want), total))
					continue calls
				}
				if len(got) < len(want) {
					res.Probes["truncated-by-display-limit"]++
				}
				// ranking
				if c.Kind == "search" {
					if p := checkOrder(got, chunk); p != "" {
						report("result-not-ranked|search", where + ": " + p)
						continue calls
					}
					if len(got) > 0 && len(got) < len(want) {
						scores := make([]float64, 0, len(want))
						for i := range want {
							scores = append(scores, want[i].Score)
						}
						sort.Sort(sort.Reverse(sort.Float64Slice(scores)))
						kth := scores[len(got)-1]
						below := 0
						for i := range got {
							if got[i].Score < kth-1e-9*math.Max(1, math.Abs(kth)) {
								below++
								if i != 2 {
									report("not-the-top-of-the-ranking|" + class + "|search", fmt.Sprintf("%s: file %d (%s, score %v) ranks below the %d-th best score %v of the unlimited result and is not the promoted third file", where, i, got[i].FileName, got[i].Score, len(got), kth))
									continue calls
								}
							}
						}
						if below > 1 {
							report("not-the-top-of-the-ranking|" + class + "|search", fmt.Sprintf("%s: %d returned files rank below the %d-th best score", where, below, len(got)))
							continue calls
						}
					}
				} else {
					for ei, e := range c.Events {
						if p := checkOrder(e.Files, chunk); p != "" {
							report("event-not-ranked|stream", fmt.Sprintf("%s: event %d: %s", where, ei, p))
							continue calls
						}
					}
				}
				if len(got) > 0 {
					nonEmpty = true
				}
			}
		}
	}
	if viol == nil && len(viols) > 0 {
		viol = &viols[0]
		viols = viols[1:]
	}
	if viol != nil {
		// attach the returned list and the unlimited ranking of the first call with files
		for _, prog := range run.Clients {
			for _, c := range prog {
				unl := c.Opts
				unl.MaxDocDisplayCount, unl.MaxMatchDisplayCount, unl.FlushWallTime = 0, 0, 0
				want, _, _ := refUnion(corpus.Shards, c.Q, &unl)
				sort.SliceStable(want, func(i, j int) bool { return want[i].Score > want[j].Score })
				viol.Detail += fmt.Sprintf(" || %s returned=%s unlimited=%s", c.Kind, briefFiles(c.files(), c.Opts.ChunkMatches), briefFiles(want, c.Opts.ChunkMatches))
			}
		}
	}
	res.Violation = viol
	res.Violations = viols
	res.Nontrivial = res.Switches >= 2 && evals > 0 && nonEmpty
	d := run.describe()
	d["steps"], d["switches"], d["policy"] = res.Steps, res.Switches, cfg.Policy
	res.Sample = d
	return res
}

func briefFiles(fs []zoekt.FileMatch, chunk bool) string {
	var b bytes.Buffer
	b.WriteString("[")
	for i := range fs {
		fmt.Fprintf(&b, "%s/%s:%.10g:m%d ", fs[i].Repository, fs[i].FileName, fs[i].Score, matchCount(&fs[i], chunk))
	}
	b.WriteString("]")
	return b.String()
}
