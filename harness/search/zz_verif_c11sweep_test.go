package search

import (
	"fmt"
	"os"
	"path/filepath"
	"strings"
	"testing"
	"time"

	"github.com/sourcegraph/zoekt"
	"github.com/sourcegraph/zoekt/internal/verifsim/hx"
	"github.com/sourcegraph/zoekt/internal/verifsim/simrt"
	"github.com/sourcegraph/zoekt/query"
)

// C11/sweep: positional enumeration of stored-byte faults. One run = one
// (corpus shard, fault kind) pair; the fault is applied at EVERY byte position
// of the shard image in turn (truncation, each single-bit flip, byte set to
// 00/7f/80/ff, a 5-byte maximal/near-maximal varint, a 4-byte big-endian
// 0xfffffff0). Each damaged copy goes through the real loadShard (real mmap)
// next to one healthy shard of another repository and is then searched and
// listed through the real shardedSearcher. A case that does not return is a
// hang: the worker exits with the watchdog code and the run is re-executed
// alone to confirm it.

func init() { hx.Register("C11/sweep", "C11", runC11Sweep) }

var c11SweepKinds = []string{"truncate", "bit0", "bit1", "bit2", "bit3", "bit4", "bit5", "bit6", "bit7", "byte00", "byte7f", "byte80", "byteff", "varint-max", "varint-max-1", "varint-2^31", "u32-fffffff0"}

func c11SweepApply(data []byte, kind string, pos int) []byte {
	out := append([]byte(nil), data...)
	put := func(bs ...byte) {
		for i, b := range bs {
			if pos+i < len(out) {
				out[pos+i] = b
			}
		}
	}
	switch {
	case kind == "truncate":
		return out[:pos]
	case strings.HasPrefix(kind, "bit"):
		out[pos] ^= 1 << uint(kind[3]-'0')
	case kind == "byte00":
		out[pos] = 0
	case kind == "byte7f":
		out[pos] = 0x7f
	case kind == "byte80":
		out[pos] = 0x80
	case kind == "byteff":
		out[pos] = 0xff
	case kind == "varint-max":
		put(0xff, 0xff, 0xff, 0xff, 0x0f)
	case kind == "varint-max-1":
		put(0xfe, 0xff, 0xff, 0xff, 0x0f)
	case kind == "varint-2^31":
		put(0x80, 0x80, 0x80, 0x80, 0x08)
	case kind == "u32-fffffff0":
		put(0xff, 0xff, 0xff, 0xf0)
	}
	return out
}

func runC11Sweep(t *testing.T, tp *simrt.Tape, keepTrace bool) hx.Result {
	corpus := getCorpus(tp.Gen(nCorpora))
	victimIdx := tp.Gen(len(corpus.Shards))
	victim := corpus.Shards[victimIdx]
	kind := c11SweepKinds[tp.Fault(len(c11SweepKinds))]
	if k := os.Getenv("VERIF_C11_KIND"); k != "" {
		kind = k // experiments only
	}
	// a healthy neighbour with disjoint repositories
	var healthy *sImage
	for i, im := range corpus.Shards {
		if i == victimIdx {
			continue
		}
		disjoint := true
		for _, r := range im.Repos {
			for _, v := range victim.Repos {
				if r == v {
					disjoint = false
				}
			}
		}
		if disjoint {
			healthy = im
			break
		}
	}
	var res hx.Result
	res.Faults = map[string]int{}
	if healthy == nil {
		return res
	}
	dir, err := os.MkdirTemp(sScratch(), "c11s-")
	if err != nil {
		return hx.Result{HarnessErr: err.Error()}
	}
	defer os.RemoveAll(dir)
	// queries: tokens that occur in the victim (so that its postings are walked
	// with distance iterators), match-all, and a regexp
	queries := []query.Q{
		&query.Substring{Pattern: sVocab[26], Content: true},
		&query.Substring{Pattern: sVocab[27], Content: true, CaseSensitive: true},
		&query.Const{Value: true},
		&query.Regexp{Regexp: mustRe(sVocab[28][:3] + "[a-z]+"), Content: true},
		&query.Substring{Pattern: "dir", FileName: true},
		// longer patterns: the two trigrams the matcher intersects are several bytes apart
		&query.Substring{Pattern: sVocab[29], Content: true},
		&query.Substring{Pattern: sVocab[31], Content: true},
		&query.Substring{Pattern: sVocab[13], Content: true},
	}
	type ref struct{ files []string }
	var refs []ref
	for qi, q := range queries {
		opts := zoekt.SearchOptions{ChunkMatches: qi%2 == 0, Whole: qi == 2}
		want, _, rerr := refUnion([]*sImage{healthy}, q, &opts)
		if rerr != nil {
			return hx.Result{HarnessErr: "reference: " + rerr.Error()}
		}
		refs = append(refs, ref{normFiles(want, false)})
	}
	n := len(victim.Data)
	desc := fmt.Sprintf("corpus %d shard %s (%d bytes) kind %s", corpus.ID, victim.Key, n, kind)
	seen := map[string]bool{}
	report := func(sig, detail string) {
		if !seen[sig] {
			seen[sig] = true
			res.Violations = append(res.Violations, hx.Violation{Sig: sig, Detail: detail})
		}
	}
	loaded, rejected := 0, 0
	path := filepath.Join(dir, victim.Key)
	for pos := 0; pos < n; pos++ {
		data := c11SweepApply(victim.Data, kind, pos)
		if err := os.WriteFile(path, data, 0o644); err != nil {
			return hx.Result{HarnessErr: err.Error()}
		}
		where := fmt.Sprintf("%s at byte %d", desc, pos)
		done := make(chan struct{})
		go func() {
			defer close(done)
			defer func() {
				if r := recover(); r != nil {
					report("panic-escaped-to-caller|sweep", fmt.Sprintf("%s: %v", where, r))
				}
			}()
			ss := newShardedSearcher(2)
			m := map[string]zoekt.Searcher{healthy.Key: healthy.searcher()}
			s, err := loadShard(path)
			if err == nil {
				m[victim.Key] = s
				loaded++
			} else {
				rejected++
			}
			ss.replace(m)
			ss.markReady()
			defer ss.Close()
			for qi, q := range queries {
				opts := zoekt.SearchOptions{ChunkMatches: qi%2 == 0, Whole: qi == 2}
				r, err := ss.Search(refCtx(), q, &opts)
				res.Evals++
				if err != nil {
					class := "other-error"
					if strings.Contains(err.Error(), "out of bounds") {
						class = "index-file-read-out-of-bounds"
					}
					report("whole-search-fails-because-of-corrupt-shard|"+class, fmt.Sprintf("%s: query %s: %v", where, q, err))
					continue
				}
				got := map[string]int{}
				for _, x := range normFiles(r.Files, false) {
					got[x]++
				}
				for _, x := range refs[qi].files {
					if got[x] < 1 {
						if len(x) > 300 {
							x = x[:300] + "..."
						}
						report("healthy-shard-result-lost-or-changed|sweep", fmt.Sprintf("%s: query %s: %s", where, q, x))
						break
					}
				}
			}
			// display limits are applied outside the per-shard recover: survival only
			ss.Search(refCtx(), queries[0], &zoekt.SearchOptions{ChunkMatches: true, NumContextLines: 1, MaxMatchDisplayCount: 1, MaxDocDisplayCount: 2})
			ss.Search(refCtx(), queries[2], &zoekt.SearchOptions{ChunkMatches: true, NumContextLines: 2, MaxMatchDisplayCount: 1})
			res.Evals += 2
			rl, err := ss.List(refCtx(), &query.Const{Value: true}, nil)
			res.Evals++
			if err != nil {
				report("list-fails-because-of-corrupt-neighbour|sweep", fmt.Sprintf("%s: %v", where, err))
				return
			}
			listed := map[string]bool{}
			for _, e := range rl.Repos {
				listed[e.Repository.Name] = true
			}
			for _, r := range healthy.Repos {
				if !listed[r] {
					report("healthy-repository-missing-from-listing|sweep", fmt.Sprintf("%s: %s", where, r))
				}
			}
		}()
		select {
		case <-done:
		case <-time.After(60 * time.Second):
			hx.ExitHang(where)
		}
		res.Faults[kind]++
	}
	res.Probes = map[string]int{"damaged-shard-loaded": loaded, "damaged-shard-rejected": rejected}
	res.Hash = hashStr(desc)
	res.Nontrivial = true
	res.Sample = map[string]any{"sweep": desc, "positions": n, "loaded": loaded, "rejected": rejected}
	return res
}

func hashStr(s string) uint64 {
	h := uint64(0xcbf29ce484222325)
	for i := 0; i < len(s); i++ {
		h ^= uint64(s[i])
		h *= 0x100000001b3
	}
	return h
}
