package search

import (
	"encoding/json"
	"bytes"
	"context"
	"fmt"
	"math/rand/v2"
	"os"
	"path/filepath"
	"sort"
	"strings"
	"sync"

	"github.com/RoaringBitmap/roaring/v2"
	"github.com/grafana/regexp"
	"regexp/syntax"

	"github.com/sourcegraph/zoekt"
	"github.com/sourcegraph/zoekt/index"
	"github.com/sourcegraph/zoekt/internal/tenant/systemtenant"
	"github.com/sourcegraph/zoekt/internal/verifsim/simrt"
	"github.com/sourcegraph/zoekt/query"
)

// ---- shard images ---------------------------------------------------------

type memFile struct {
	name string
	data []byte
}

func (s *memFile) Name() string { return s.name }
func (s *memFile) Close()       {}
func (s *memFile) Read(off, sz uint32) ([]byte, error) {
	if int(off)+int(sz) > len(s.data) {
		return nil, fmt.Errorf("memFile: read beyond end")
	}
	return s.data[off : off+sz], nil
}
func (s *memFile) Size() (uint32, error) { return uint32(len(s.data)), nil }

type sRepo struct {
	Repo zoekt.Repository
	Docs []index.Document
}

type sImage struct {
	Key   string // file base name
	Data  []byte
	Repos []string // repository names inside
	IDs   []uint32
}

func (im *sImage) searcher() zoekt.Searcher {
	s, err := index.NewSearcher(&memFile{name: im.Key, data: im.Data})
	if err != nil {
		panic(fmt.Sprintf("verif: cannot load own shard image %s: %v", im.Key, err))
	}
	return s
}

type sCorpus struct {
	ID     int
	Repos  []*sRepo
	Shards []*sImage
	Split  bool // some repository is split over several shards
	Vocab  []string
}

var sVocab = []string{"alpha", "bravo", "charlie", "delta", "echo", "foxtrot", "golf", "hotel", "india", "juliet",
	"kilo", "lima", "mike", "november", "oscar", "papa", "quebec", "romeo", "sierra", "tango",
	"uniform", "victor", "whiskey", "xray", "yankee", "zulu", "needle", "Needle", "func", "return",
	"import", "package", "main", "error", "nil", "struct", "TODO", "fixme", "zoekt", "search"}

var (
	corpusMu    sync.Mutex
	corpusCache = map[int]*sCorpus{}
	scratchDir  string
)

func sScratch() string {
	if scratchDir == "" {
		d, err := os.MkdirTemp("/dev/shm", "verif-s-")
		if err != nil {
			d, err = os.MkdirTemp("", "verif-s-")
			if err != nil {
				panic(err)
			}
		}
		scratchDir = d
	}
	return scratchDir
}

func buildSimple(r *sRepo, docs []index.Document, shardNo int) *sImage {
	repo := r.Repo
	b, err := index.NewShardBuilder(&repo)
	if err != nil {
		panic(err)
	}
	for _, d := range docs {
		if err := b.Add(d); err != nil {
			panic(err)
		}
	}
	var buf bytes.Buffer
	if err := b.Write(&buf); err != nil {
		panic(err)
	}
	return &sImage{Key: fmt.Sprintf("%s_v%d.%05d.zoekt", r.Repo.Name, index.IndexFormatVersion, shardNo), Data: buf.Bytes(), Repos: []string{r.Repo.Name}, IDs: []uint32{r.Repo.ID}}
}

func buildCompound(parts []*sImage) *sImage {
	dir, err := os.MkdirTemp(sScratch(), "merge-")
	if err != nil {
		panic(err)
	}
	defer os.RemoveAll(dir)
	var files []index.IndexFile
	var names []string
	var ids []uint32
	for _, p := range parts {
		files = append(files, &memFile{name: p.Key, data: p.Data})
		names = append(names, p.Repos...)
		ids = append(ids, p.IDs...)
	}
	tmp, dst, err := index.Merge(dir, files...)
	if err != nil {
		panic(err)
	}
	data, err := os.ReadFile(tmp)
	if err != nil {
		panic(err)
	}
	return &sImage{Key: filepath.Base(dst), Data: data, Repos: names, IDs: ids}
}

// getCorpus builds (once per process) the deterministic corpus number id.
func getCorpus(id int) *sCorpus {
	corpusMu.Lock()
	defer corpusMu.Unlock()
	if c, ok := corpusCache[id]; ok {
		return c
	}
	// ids >= 100 are the "same name" variants of corpus id-100: the first two
	// repositories (tenants 1 and 2) carry the same name (legal for two tenants);
	// only harnesses that identify repositories by id use them
	dupNames := id >= 100
	rng := rand.New(rand.NewPCG(uint64(id%100)+1000, 77))
	c := &sCorpus{ID: id, Vocab: sVocab}
	nRepos := 4 + rng.IntN(3)
	for i := 0; i < nRepos; i++ {
		name := fmt.Sprintf("r%d", i)
		tenantID := 1 + i%2
		repo := zoekt.Repository{
			ID: uint32(i + 1), Name: name, TenantID: tenantID,
			URL:                  fmt.Sprintf("http://t%d.example/%s", tenantID, name),
			CommitURLTemplate:    fmt.Sprintf("http://t%d.example/%s/commit/{{.Version}}", tenantID, name),
			FileURLTemplate:      fmt.Sprintf("http://t%d.example/%s/blob/{{.Version}}/{{.Path}}", tenantID, name),
			LineFragmentTemplate: fmt.Sprintf("#t%d%sL{{.LineNumber}}", tenantID, name),
			// "k" and "K" are different metadata fields
			Metadata:             map[string]string{"k": []string{"aa", "bb", "cc"}[rng.IntN(3)], "K": []string{"aa", "bb", "cc"}[(i+id)%3], "owner": fmt.Sprintf("team%d", i%3)},
			RawConfig:            map[string]string{"priority": []string{"0", "5", "10", "10"}[rng.IntN(4)], "public": "1"},
			Branches:             []zoekt.RepositoryBranch{{Name: "HEAD", Version: fmt.Sprintf("v%d-%d", id, i)}},
		}
		if i%3 == 1 {
			// a sub-repository (submodule): its name and URL templates travel in RepoURLs / LineFragments
			repo.SubRepoMap = map[string]*zoekt.Repository{"third_party/sub": {
				Name:                 fmt.Sprintf("%s-sub", name),
				URL:                  fmt.Sprintf("http://t%d.example/%s-sub", tenantID, name),
				FileURLTemplate:      fmt.Sprintf("http://t%d.example/%s-sub/blob/{{.Version}}/{{.Path}}", tenantID, name),
				LineFragmentTemplate: fmt.Sprintf("#t%d%ssubL{{.LineNumber}}", tenantID, name),
			}}
		}
		twoBranches := rng.IntN(2) == 0
		if twoBranches {
			repo.Branches = append(repo.Branches, zoekt.RepositoryBranch{Name: "dev", Version: fmt.Sprintf("d%d-%d", id, i)})
		}
		r := &sRepo{Repo: repo}
		nDocs := 2 + rng.IntN(4)
		for d := 0; d < nDocs; d++ {
			var sb strings.Builder
			nLines := 2 + rng.IntN(7)
			for l := 0; l < nLines; l++ {
				nTok := 1 + rng.IntN(6)
				for k := 0; k < nTok; k++ {
					if k > 0 {
						sb.WriteByte(' ')
					}
					// skew towards a few hot tokens so that queries hit several shards
					if rng.IntN(3) == 0 {
						sb.WriteString(sVocab[26+rng.IntN(4)])
					} else {
						sb.WriteString(sVocab[rng.IntN(len(sVocab))])
					}
				}
				sb.WriteByte('\n')
				if rng.IntN(5) == 0 {
					sb.WriteByte('\n') // an empty line
				}
			}
			ext := []string{".go", ".txt", ".md", ".py"}[rng.IntN(4)]
			doc := index.Document{Name: fmt.Sprintf("dir%d/f%d%s", d%2, d, ext), Content: []byte(sb.String()), Branches: []string{"HEAD"}}
			if twoBranches {
				switch rng.IntN(3) {
				case 0:
					doc.Branches = []string{"HEAD", "dev"}
				case 1:
					doc.Branches = []string{"dev"}
				}
			}
			r.Docs = append(r.Docs, doc)
		}
		if id%2 == 1 && i%2 == 1 {
			// the first document of this repository is hidden by a file tombstone
			r.Repo.FileTombstones = map[string]struct{}{r.Docs[0].Name: {}}
		}
		c.Repos = append(c.Repos, r)
	}
	if dupNames {
		c.Repos[1].Repo.Name = c.Repos[0].Repo.Name
	}
	if id%3 == 0 {
		// a repository whose documents are all empty (placeholders such as __init__.py):
		// it gets a shard of its own with zero content bytes; only file-name, branch and
		// repository atoms can match it
		i := len(c.Repos)
		tenantID := 1 + i%2
		repo := zoekt.Repository{
			ID: uint32(i + 1), Name: fmt.Sprintf("r%d", i), TenantID: tenantID,
			URL:                  fmt.Sprintf("http://t%d.example/r%d", tenantID, i),
			LineFragmentTemplate: fmt.Sprintf("#t%dr%dL{{.LineNumber}}", tenantID, i),
			Metadata:             map[string]string{"k": "aa", "owner": "team0"},
			RawConfig:            map[string]string{"priority": "5", "public": "1"},
			Branches:             []zoekt.RepositoryBranch{{Name: "HEAD", Version: fmt.Sprintf("v%d-%d", id, i)}},
		}
		r := &sRepo{Repo: repo}
		r.Docs = append(r.Docs, index.Document{Name: "dir0/f1_empty.txt", Content: []byte{}, Branches: []string{"HEAD"}},
			index.Document{Name: "dir1/f2_empty.go", Content: []byte{}, Branches: []string{"HEAD"}})
		c.Repos = append(c.Repos, r)
	}
	// layout
	layout := rng.IntN(5)
	// the shard images are shared between worker processes through the per-tree
	// image cache (building them costs several seconds of ShardBuilder set-up)
	cacheFile := ""
	if d := os.Getenv("VERIF_IMGCACHE"); d != "" {
		os.MkdirAll(filepath.Join(d, "corpus"), 0o755)
		cacheFile = filepath.Join(d, "corpus", fmt.Sprintf("%d.json", id))
		if bs, err := os.ReadFile(cacheFile); err == nil {
			var shards []*sImage
			if json.Unmarshal(bs, &shards) == nil && len(shards) > 0 {
				c.Shards = shards
				c.Split = layout == 2 || layout == 4
				corpusCache[id] = c
				return c
			}
		}
	}
	defer func() {
		if cacheFile != "" && len(c.Shards) > 0 {
			if bs, err := json.Marshal(c.Shards); err == nil {
				tmp := fmt.Sprintf("%s.%d.tmp", cacheFile, os.Getpid())
				if os.WriteFile(tmp, bs, 0o644) == nil {
					os.Rename(tmp, cacheFile)
				}
			}
		}
	}()
	simple := map[int]*sImage{}
	for i, r := range c.Repos {
		simple[i] = buildSimple(r, r.Docs, 0)
	}
	used := map[int]bool{}
	switch layout {
	case 0: // all simple
	case 1: // first three compound
		c.Shards = append(c.Shards, buildCompound([]*sImage{simple[0], simple[1], simple[2]}))
		used[0], used[1], used[2] = true, true, true
	case 2: // repo 0 split, {1,2} compound
		r := c.Repos[0]
		h := len(r.Docs) / 2
		c.Shards = append(c.Shards, buildSimple(r, r.Docs[:h], 0), buildSimple(r, r.Docs[h:], 1))
		c.Split = true
		used[0] = true
		c.Shards = append(c.Shards, buildCompound([]*sImage{simple[1], simple[2]}))
		used[1], used[2] = true, true
	case 4: // repo 0 split over two shards and one compound of three: more repositories than shards
		r := c.Repos[0]
		h := len(r.Docs) / 2
		c.Shards = append(c.Shards, buildSimple(r, r.Docs[:h], 0), buildSimple(r, r.Docs[h:], 1))
		c.Split = true
		used[0] = true
		c.Shards = append(c.Shards, buildCompound([]*sImage{simple[1], simple[2], simple[3]}))
		used[1], used[2], used[3] = true, true, true
	case 3: // two compounds
		c.Shards = append(c.Shards, buildCompound([]*sImage{simple[0], simple[1]}))
		c.Shards = append(c.Shards, buildCompound([]*sImage{simple[2], simple[3]}))
		used[0], used[1], used[2], used[3] = true, true, true, true
	}
	for i := range c.Repos {
		if !used[i] {
			c.Shards = append(c.Shards, simple[i])
		}
	}
	if dupNames {
		for i, im := range c.Shards {
			im.Key = fmt.Sprintf("s%d-%s", i, im.Key) // same-named repositories give same-named shard files
		}
	}
	corpusCache[id] = c
	return c
}

const nCorpora = 12

// ---- queries ---------------------------------------------------------------

func mustRe(s string) *syntax.Regexp {
	r, err := syntax.Parse(s, syntax.Perl)
	if err != nil {
		panic(err)
	}
	return r
}

func genContentAtom(tp *simrt.Tape, c *sCorpus) query.Q {
	tok := c.Vocab[tp.Gen(len(c.Vocab))]
	if tp.Gen(3) == 0 {
		tok = c.Vocab[26+tp.Gen(4)]
	}
	switch tp.Gen(6) {
	case 0:
		return &query.Substring{Pattern: tok, Content: true}
	case 1:
		return &query.Substring{Pattern: tok, CaseSensitive: true}
	case 2:
		return &query.Regexp{Regexp: mustRe(tok[:len(tok)/2+1] + "[a-z]*"), Content: true, CaseSensitive: tp.Gen(2) == 0}
	case 3:
		return &query.Substring{Pattern: []string{".go", ".txt", "dir0", "f1", "f2"}[tp.Gen(5)], FileName: true}
	case 4:
		return &query.Branch{Pattern: []string{"HEAD", "dev"}[tp.Gen(2)], Exact: tp.Gen(2) == 0}
	default:
		return &query.Substring{Pattern: tok}
	}
}

func genContentQ(tp *simrt.Tape, c *sCorpus, depth int) query.Q {
	if depth <= 0 || tp.Gen(3) == 0 {
		return genContentAtom(tp, c)
	}
	switch tp.Gen(4) {
	case 0:
		return &query.And{Children: []query.Q{genContentQ(tp, c, depth-1), genContentQ(tp, c, depth-1)}}
	case 1:
		return &query.Or{Children: []query.Q{genContentQ(tp, c, depth-1), genContentQ(tp, c, depth-1)}}
	case 2:
		return &query.And{Children: []query.Q{genContentQ(tp, c, depth-1), &query.Not{Child: genContentAtom(tp, c)}}}
	default:
		return genContentAtom(tp, c)
	}
}

func genRepoAtom(tp *simrt.Tape, c *sCorpus) query.Q {
	pickIDs := func() []uint32 {
		var ids []uint32
		for _, r := range c.Repos {
			if tp.Gen(2) == 0 {
				ids = append(ids, r.Repo.ID)
			}
		}
		if tp.Gen(4) == 0 {
			ids = append(ids, 99)
		}
		return ids
	}
	switch tp.Gen(6) {
	case 0:
		set := map[string]bool{}
		for _, r := range c.Repos {
			if tp.Gen(2) == 0 {
				set[r.Repo.Name] = true
			}
		}
		return &query.RepoSet{Set: set}
	case 1:
		return &query.RepoIDs{Repos: roaring.BitmapOf(pickIDs()...)}
	case 2:
		return &query.Repo{Regexp: regexp.MustCompile([]string{"r[0-2]", "r1", "r[3-9]", "^r", "nomatch"}[tp.Gen(5)])}
	case 3:
		br := &query.BranchesRepos{List: []query.BranchRepos{{Branch: []string{"HEAD", "dev"}[tp.Gen(2)], Repos: roaring.BitmapOf(pickIDs()...)}}}
		if tp.Gen(3) == 0 {
			br.List = append(br.List, query.BranchRepos{Branch: "dev", Repos: roaring.BitmapOf(pickIDs()...)})
		}
		return br
	case 4:
		return &query.Meta{Field: []string{"k", "owner", "nofield", "K"}[tp.Gen(4)], Value: regexp.MustCompile([]string{"aa", "bb", "^(aa|cc)$", "team1", "."}[tp.Gen(5)])}
	default:
		return &query.Meta{Field: "k", Value: regexp.MustCompile([]string{"aa", "bb", "cc"}[tp.Gen(3)])}
	}
}

// genQuery draws a query whose top level mixes repository-selecting atoms
// with content atoms. typeRepo allows (type:repo ...) children.
func genQuery(tp *simrt.Tape, c *sCorpus, typeRepo bool) query.Q {
	switch tp.Gen(8) {
	case 0:
		return genContentQ(tp, c, 2)
	case 1, 2, 3:
		return &query.And{Children: []query.Q{genRepoAtom(tp, c), genContentQ(tp, c, 1)}}
	case 4:
		return &query.And{Children: []query.Q{genContentQ(tp, c, 1), genRepoAtom(tp, c), genRepoAtom(tp, c)}}
	case 5:
		return &query.Or{Children: []query.Q{&query.And{Children: []query.Q{genRepoAtom(tp, c), genContentAtom(tp, c)}}, genContentAtom(tp, c)}}
	case 6:
		if typeRepo && tp.Gen(3) == 0 {
			// two type:repo predicates in one query whose children differ only inside a
			// repository set (their String() forms abbreviate such sets)
			var a, b []uint32
			for i, r := range c.Repos {
				if i%2 == 0 {
					a = append(a, r.Repo.ID)
				} else {
					b = append(b, r.Repo.ID)
				}
			}
			if len(a) > len(b) {
				a = a[:len(b)]
			}
			atom := genContentAtom(tp, c)
			mk := func(ids []uint32) query.Q {
				return &query.Type{Type: query.TypeRepo, Child: &query.And{Children: []query.Q{&query.RepoIDs{Repos: roaring.BitmapOf(ids...)}, atom}}}
			}
			return &query.Or{Children: []query.Q{
				&query.And{Children: []query.Q{mk(a), genContentAtom(tp, c)}},
				&query.And{Children: []query.Q{mk(b), genContentAtom(tp, c)}},
			}}
		}
		if typeRepo {
			return &query.And{Children: []query.Q{&query.Type{Type: query.TypeRepo, Child: genContentAtom(tp, c)}, genContentQ(tp, c, 1)}}
		}
		return &query.And{Children: []query.Q{&query.Not{Child: genRepoAtom(tp, c)}, genContentQ(tp, c, 1)}}
	default:
		return &query.And{Children: []query.Q{genRepoAtom(tp, c), &query.Const{Value: true}}}
	}
}

// ---- normalisation and reference ------------------------------------------

func normFile(f *zoekt.FileMatch, withScore bool) string {
	var b strings.Builder
	fmt.Fprintf(&b, "%s|%s|%s|%s|br=%v|ver=%s|lang=%s|id=%d", f.Repository, f.FileName, f.SubRepositoryName, f.SubRepositoryPath, f.Branches, f.Version, f.Language, f.RepositoryID)
	if withScore {
		fmt.Fprintf(&b, "|score=%.6f", f.Score)
	}
	if f.Content != nil {
		fmt.Fprintf(&b, "|content=%q", f.Content)
	}
	for _, lm := range f.LineMatches {
		fmt.Fprintf(&b, "|L%d[%d:%d]%q fn=%t", lm.LineNumber, lm.LineStart, lm.LineEnd, lm.Line, lm.FileName)
		if lm.Before != nil || lm.After != nil {
			fmt.Fprintf(&b, "b=%q a=%q", lm.Before, lm.After)
		}
		for _, fr := range lm.LineFragments {
			fmt.Fprintf(&b, "(%d,%d,%d)", fr.LineOffset, fr.Offset, fr.MatchLength)
		}
		if withScore {
			fmt.Fprintf(&b, "s=%.6f", lm.Score)
		}
	}
	for _, cm := range f.ChunkMatches {
		fmt.Fprintf(&b, "|C@%d:%d:%d fn=%t %q", cm.ContentStart.ByteOffset, cm.ContentStart.LineNumber, cm.ContentStart.Column, cm.FileName, cm.Content)
		for _, r := range cm.Ranges {
			fmt.Fprintf(&b, "(%d:%d:%d-%d:%d:%d)", r.Start.ByteOffset, r.Start.LineNumber, r.Start.Column, r.End.ByteOffset, r.End.LineNumber, r.End.Column)
		}
		if withScore {
			fmt.Fprintf(&b, "s=%.6f", cm.Score)
		}
	}
	return b.String()
}

func fileKey(f *zoekt.FileMatch) string {
	return f.Repository + "|" + f.FileName + "|" + strings.Join(f.Branches, ",")
}

func normFiles(fs []zoekt.FileMatch, withScore bool) []string {
	out := make([]string, 0, len(fs))
	for i := range fs {
		out = append(out, normFile(&fs[i], withScore))
	}
	sort.Strings(out)
	return out
}

// refCtx is the context reference searches run under: tenant enforcement in
// these harnesses is off, so a plain context is enough; C23 uses its own.
func refCtx() context.Context { return systemtenant.WithUnsafeContext(context.Background()) }

// refSearchShard runs q alone on a freshly loaded copy of one shard image.
func refSearchShard(im *sImage, q query.Q, opts *zoekt.SearchOptions) (*zoekt.SearchResult, error) {
	s := im.searcher()
	defer s.Close()
	o := *opts
	res, err := s.Search(refCtx(), q, &o)
	if err != nil {
		return nil, err
	}
	copyFiles(res)
	return res, nil
}

// refUnion = union over shards of the reference answer of the original query.
func refUnion(shards []*sImage, q query.Q, opts *zoekt.SearchOptions) ([]zoekt.FileMatch, zoekt.Stats, error) {
	var all []zoekt.FileMatch
	var st zoekt.Stats
	for _, im := range shards {
		r, err := refSearchShard(im, q, opts)
		if err != nil {
			return nil, st, err
		}
		all = append(all, r.Files...)
		st.Add(r.Stats)
	}
	return all, st, nil
}

func diffSets(got, want []string) string {
	g := map[string]int{}
	w := map[string]int{}
	for _, x := range got {
		g[x]++
	}
	for _, x := range want {
		w[x]++
	}
	var missing, extra []string
	for k, n := range w {
		if g[k] < n {
			missing = append(missing, k)
		}
	}
	for k, n := range g {
		if w[k] < n {
			extra = append(extra, k)
		}
	}
	sort.Strings(missing)
	sort.Strings(extra)
	if len(missing) == 0 && len(extra) == 0 {
		return ""
	}
	trunc := func(l []string) []string {
		if len(l) > 3 {
			l = l[:3]
		}
		for i := range l {
			if len(l[i]) > 300 {
				l[i] = l[i][:300] + "..."
			}
		}
		return l
	}
	return fmt.Sprintf("missing(%d)=%q extra(%d)=%q", len(missing), trunc(missing), len(extra), trunc(extra))
}

// newLoadedSharded returns a shardedSearcher over fresh searchers of the images.
func newLoadedSharded(c *sCorpus, capacity int64) *shardedSearcher {
	ss := newShardedSearcher(capacity)
	m := map[string]zoekt.Searcher{}
	for _, im := range c.Shards {
		m[im.Key] = im.searcher()
	}
	ss.replace(m)
	ss.markReady()
	return ss
}
