package search

import (
	"context"
	"fmt"
	"testing"
	"time"

	"github.com/sourcegraph/zoekt/internal/verifsim/hx"
	"github.com/sourcegraph/zoekt/internal/verifsim/simrt"
)

// C20: the search scheduler bounds concurrency and never leaks slots.

func init() { hx.Register("C20", "C20", runC20) }

type c20Phase int

const (
	c20Idle c20Phase = iota
	c20Acquiring
	c20HoldI
	c20InYield
	c20HoldB
	c20Releasing // Release in progress
	c20Done
)

type c20Client struct {
	phase c20Phase
	// heldBeforeRelease is "I" or "B" or "" while releasing
	held string
}

func (c *c20Client) bounds() (loI, hiI, loB, hiB int64) {
	switch c.phase {
	case c20Acquiring:
		return 0, 1, 0, 0
	case c20HoldI:
		return 1, 1, 0, 0
	case c20InYield:
		return 0, 1, 0, 1
	case c20HoldB:
		return 0, 0, 1, 1
	case c20Releasing:
		switch c.held {
		case "I":
			return 0, 1, 0, 0
		case "B":
			return 0, 0, 0, 1
		}
	}
	return 0, 0, 0, 0
}

func runC20(t *testing.T, tp *simrt.Tape, keepTrace bool) hx.Result {
	cfg := simrt.DrawConfig(tp)
	cfg.KeepTrace = keepTrace
	cfg.MaxSteps = 20000
	capacity := int64(tp.GenRange(1, 4))
	div := []int{0, 1, 2, 4}[tp.Gen(4)]
	slice := []time.Duration{time.Millisecond, 100 * time.Millisecond, time.Second, 5 * time.Second}[tp.Gen(4)]
	nClients := tp.GenRange(2, 8)
	type plan struct {
		ctxKind  int // 0 background, 1 timeout, 2 cancel task
		ctxAfter time.Duration
		units    int
		work     []time.Duration
		startLag time.Duration
		stopOnYieldErr bool
	}
	durs := []time.Duration{0, time.Millisecond, 50 * time.Millisecond, 500 * time.Millisecond, 3 * time.Second, 6 * time.Second}
	plans := make([]plan, nClients)
	for i := range plans {
		p := &plans[i]
		p.ctxKind = tp.Gen(3)
		p.ctxAfter = durs[tp.Gen(len(durs))]
		p.units = tp.GenRange(0, 4)
		for j := 0; j < p.units; j++ {
			p.work = append(p.work, durs[tp.Gen(len(durs))])
		}
		p.startLag = durs[tp.Gen(3)]
		p.stopOnYieldErr = tp.Gen(2) == 0
	}
	expBatchCap := capacity
	if div == 0 {
		expBatchCap = capacity / 4
	} else {
		expBatchCap = capacity / int64(div)
	}
	if expBatchCap == 0 {
		expBatchCap = 1
	}

	var viol *hx.Violation
	setViol := func(sig, detail string) {
		if viol == nil {
			viol = &hx.Violation{Sig: sig, Detail: detail}
		}
	}
	clients := make([]*c20Client, nClients)
	for i := range clients {
		clients[i] = &c20Client{}
	}
	oracleEvals := 0
	sawHeld := false
	mainHeld := int64(0) // slots held by the final no-leak probe
	var sched *multiScheduler
	finalOK := false

	s, res := hx.Sim(t, tp, cfg, func() {
		old := zoektSched
		zoektSched = map[string]int{}
		if div != 0 {
			zoektSched["batchdiv"] = div
		}
		sched = newMultiScheduler(capacity)
		zoektSched = old
		sched.interactiveDuration = slice

		simrt.OnStep(func() error {
			if viol != nil {
				return fmt.Errorf("violation")
			}
			icur, bcur := sched.semInteractive.sem.PeekCur(), sched.semBatch.sem.PeekCur()
			var loI, hiI, loB, hiB int64
			hiI += mainHeld
			holdI, holdB := int64(0), int64(0)
			for _, c := range clients {
				a, b, c2, d := c.bounds()
				loI += a
				hiI += b
				loB += c2
				hiB += d
				if c.phase == c20HoldI {
					holdI++
				}
				if c.phase == c20HoldB {
					holdB++
				}
			}
			oracleEvals++
			if icur > 0 || bcur > 0 {
				sawHeld = true
			}
			if holdI > capacity {
				setViol("over-capacity|interactive", fmt.Sprintf("%d searches hold an interactive slot, capacity %d", holdI, capacity))
			}
			if holdB > expBatchCap {
				setViol("over-capacity|batch", fmt.Sprintf("%d searches hold a batch slot, batch capacity %d (capacity %d, batchdiv %d)", holdB, expBatchCap, capacity, div))
			}
			if icur < loI || bcur < loB {
				setViol("slot-not-held|accounting", fmt.Sprintf("semaphore occupancy below what clients hold: interactive cur=%d need>=%d, batch cur=%d need>=%d", icur, loI, bcur, loB))
			}
			if icur > hiI || bcur > hiB {
				setViol("slot-leak|accounting", fmt.Sprintf("semaphore occupancy above what clients can hold: interactive cur=%d max=%d, batch cur=%d max=%d", icur, hiI, bcur, hiB))
			}
			if viol != nil {
				return fmt.Errorf("violation")
			}
			return nil
		})

		done := make(chan int, nClients)
		for i := 0; i < nClients; i++ {
			i := i
			p := plans[i]
			c := clients[i]
			simrt.GoNamed(fmt.Sprintf("client%d", i), func() {
				defer func() {
					if r := recover(); r != nil {
						setViol("panic|client", fmt.Sprint(r))
					}
					simrt.Send(done, "c20done")(i)
				}()
				if p.startLag > 0 {
					simrt.Sleep(p.startLag)
				}
				ctx := context.Background()
				switch p.ctxKind {
				case 1:
					var cancel context.CancelFunc
					ctx, cancel = context.WithTimeout(ctx, p.ctxAfter)
					defer cancel()
				case 2:
					var cancel context.CancelFunc
					ctx, cancel = context.WithCancel(ctx)
					after := p.ctxAfter
					simrt.GoNamed(fmt.Sprintf("canceller%d", i), func() {
						if after > 0 {
							simrt.Sleep(after)
						}
						cancel()
					})
				}
				c.phase = c20Acquiring
				proc, err := sched.Acquire(ctx)
				if err != nil {
					c.phase = c20Done
					simrt.Probe("cancel-while-queued")
					if ctx.Err() == nil {
						setViol("acquire-failed-with-live-context|acquire", err.Error())
					}
					return
				}
				c.phase = c20HoldI
				cur := "I"
				failedYield := false
				for _, w := range p.work {
					if w > 0 {
						simrt.Sleep(w)
					} else {
						simrt.Yield("c20work")
					}
					before := c.phase
					if failedYield {
						before = c20Idle
					}
					if before == c20HoldI {
						c.phase = c20InYield
					}
					wasNil := proc.yieldTimer == nil
					err := proc.Yield(ctx)
					if err != nil {
						if ctx.Err() == nil {
							setViol("yield-failed-with-live-context|yield", err.Error())
						}
						simrt.Probe("yield-to-batch-failed")
						// holds nothing now
						c.phase = c20Idle
						cur = ""
						failedYield = true
						if p.stopOnYieldErr {
							break
						}
						// like the shard loop (which ignores Yield's error and calls it
						// again on every iteration) keep yielding: it must stay a no-op
						simrt.Probe("yield-retried-after-failure")
						continue
					}
					if before == c20HoldI {
						if !wasNil && proc.yieldTimer == nil {
							c.phase = c20HoldB
							cur = "B"
							simrt.Probe("moved-to-batch")
						} else {
							c.phase = c20HoldI
						}
					}
				}
				_ = failedYield
				c.held = cur
				c.phase = c20Releasing
				proc.Release()
				c.phase = c20Done
			})
		}
		for i := 0; i < nClients; i++ {
			simrt.Recv(done, "c20main")
		}
		// no leak: both semaphores idle, and `capacity` fresh acquisitions succeed.
		if viol == nil {
			if a, b := sched.semInteractive.sem.PeekCur(), sched.semBatch.sem.PeekCur(); a != 0 || b != 0 {
				setViol("slot-leak|final", fmt.Sprintf("after all searches finished: interactive cur=%d batch cur=%d", a, b))
			}
		}
		if viol == nil {
			var procs []*process
			for k := int64(0); k < capacity; k++ {
				// a leaked slot makes this block for ever => reported as deadlock
				mainHeld = capacity
				pr, err := sched.Acquire(context.Background())
				if err != nil {
					setViol("slot-leak|fresh-acquire", fmt.Sprintf("fresh acquisition %d/%d failed: %v", k+1, capacity, err))
					break
				}
				procs = append(procs, pr)
			}
			for _, pr := range procs {
				pr.Release()
			}
			mainHeld = 0
			if a, b := sched.semInteractive.sem.PeekCur(), sched.semBatch.sem.PeekCur(); a != 0 || b != 0 {
				setViol("slot-leak|final", fmt.Sprintf("after the fresh acquisitions were released: interactive cur=%d batch cur=%d", a, b))
			}
		}
		finalOK = true
	})
	if s != nil && viol == nil && res.HarnessErr == "" {
		if s.Deadlocked() {
			viol = &hx.Violation{Sig: "deadlock|liveness", Detail: fmt.Sprint(s.BlockedSites())}
		} else if s.OverBudget() {
			res.HarnessErr = "step budget exceeded"
		} else if !finalOK && s.StopErr() == nil {
			res.HarnessErr = "main task did not finish"
		}
	}
	res.Violation = viol
	res.Nontrivial = res.Switches >= 2 && oracleEvals > 0 && sawHeld
	res.Sample = map[string]any{"capacity": capacity, "batchdiv": div, "slice": slice.String(), "clients": nClients, "plans": fmt.Sprintf("%+v", plans), "policy": cfg.Policy, "steps": res.Steps, "switches": res.Switches, "probes": res.Probes}
	return res
}
