package gitindex

import (
	"bytes"
	"context"
	"fmt"
	"os"
	"os/exec"
	"path/filepath"
	"sort"
	"strings"

	"github.com/sourcegraph/zoekt"
	"github.com/sourcegraph/zoekt/index"
	"github.com/sourcegraph/zoekt/internal/tenant/systemtenant"
	"github.com/sourcegraph/zoekt/internal/verifsim/simos"
	"github.com/sourcegraph/zoekt/internal/verifsim/simrt"
	"github.com/sourcegraph/zoekt/query"
	"github.com/sourcegraph/zoekt/search"
)

var gScratch string

func gDir() string {
	if gScratch == "" {
		d, err := os.MkdirTemp("/dev/shm", "verif-g-")
		if err != nil {
			d, _ = os.MkdirTemp("", "verif-g-")
		}
		gScratch = d
	}
	return gScratch
}

// gRepo drives a real git repository through the git CLI.
type gRepo struct {
	dir  string
	tick int
	cur  string
}

func (g *gRepo) git(args ...string) string {
	cmd := exec.Command("git", args...)
	cmd.Dir = g.dir
	g.tick++
	date := fmt.Sprintf("2020-01-01T00:%02d:%02dZ", (g.tick/60)%60, g.tick%60)
	cmd.Env = append(os.Environ(), "GIT_CONFIG_NOSYSTEM=1", "GIT_CONFIG_GLOBAL=/dev/null", "HOME="+gDir(),
		"GIT_AUTHOR_NAME=verif", "GIT_AUTHOR_EMAIL=verif@example.com", "GIT_COMMITTER_NAME=verif", "GIT_COMMITTER_EMAIL=verif@example.com",
		"GIT_AUTHOR_DATE="+date, "GIT_COMMITTER_DATE="+date)
	out, err := cmd.CombinedOutput()
	if err != nil {
		panic(fmt.Sprintf("git %v: %v: %s", args, err, out))
	}
	return string(out)
}

func newGRepo(dir string) *gRepo {
	os.MkdirAll(dir, 0o755)
	g := &gRepo{dir: dir}
	g.git("init", "-q", "-b", "main")
	g.git("config", "core.autocrlf", "false")
	g.git("commit", "-q", "--allow-empty", "-m", "root")
	g.cur = "main"
	return g
}

func (g *gRepo) checkout(branch string) {
	if g.cur == branch {
		return
	}
	if strings.TrimSpace(g.git("branch", "--list", branch)) == "" {
		g.git("checkout", "-q", "-b", branch)
	} else {
		g.git("checkout", "-q", branch)
	}
	g.cur = branch
}

type gFileOp struct {
	kind    string // write delete rename
	path    string
	to      string
	content string
}

func (g *gRepo) commit(branch string, ops []gFileOp) {
	g.checkout(branch)
	for _, o := range ops {
		p := filepath.Join(g.dir, o.path)
		switch o.kind {
		case "write":
			os.MkdirAll(filepath.Dir(p), 0o755)
			if err := os.WriteFile(p, []byte(o.content), 0o644); err != nil {
				panic(err)
			}
		case "delete":
			os.Remove(p)
		case "rename":
			if _, err := os.Stat(p); err == nil {
				os.MkdirAll(filepath.Dir(filepath.Join(g.dir, o.to)), 0o755)
				os.Rename(p, filepath.Join(g.dir, o.to))
			}
		}
	}
	g.git("add", "-A")
	g.git("commit", "-q", "--allow-empty", "-m", fmt.Sprintf("c%d", g.tick))
}

// tree returns path -> content of the branch head, straight from git
// (one ls-tree and one cat-file --batch process).
func (g *gRepo) tree(branch string) map[string]string {
	out := map[string]string{}
	ls := g.git("ls-tree", "-r", "-z", branch)
	var paths, shas []string
	for _, e := range strings.Split(ls, "\x00") {
		if e == "" {
			continue
		}
		tab := strings.IndexByte(e, '\t')
		meta := strings.Fields(e[:tab])
		if meta[1] != "blob" {
			continue
		}
		paths = append(paths, e[tab+1:])
		shas = append(shas, meta[2])
	}
	if len(shas) == 0 {
		return out
	}
	cmd := exec.Command("git", "cat-file", "--batch")
	cmd.Dir = g.dir
	cmd.Stdin = strings.NewReader(strings.Join(shas, "\n") + "\n")
	b, err := cmd.Output()
	if err != nil {
		panic(err)
	}
	for i := range shas {
		nl := bytes.IndexByte(b, '\n')
		hdr := strings.Fields(string(b[:nl]))
		var size int
		fmt.Sscanf(hdr[2], "%d", &size)
		out[paths[i]] = string(b[nl+1 : nl+1+size])
		b = b[nl+1+size+1:]
	}
	return out
}

func (g *gRepo) head(branch string) string {
	return strings.TrimSpace(g.git("rev-parse", branch))
}

func gSysCtx() context.Context { return systemtenant.WithUnsafeContext(context.Background()) }

// gView: branch -> path -> list of contents found by a search restricted to
// the branch (Whole).
func gView(indexDir string, branches []string) (map[string]map[string][]string, error) {
	ss, err := search.NewDirectorySearcher(indexDir)
	if err != nil {
		return nil, err
	}
	defer ss.Close()
	out := map[string]map[string][]string{}
	for _, b := range branches {
		r, err := ss.Search(gSysCtx(), &query.And{Children: []query.Q{&query.Branch{Pattern: b, Exact: true}, &query.Const{Value: true}}}, &zoekt.SearchOptions{Whole: true})
		if err != nil {
			return nil, err
		}
		if r.Stats.Crashes > 0 {
			return nil, fmt.Errorf("crashes=%d", r.Stats.Crashes)
		}
		m := map[string][]string{}
		for _, f := range r.Files {
			m[f.FileName] = append(m[f.FileName], string(f.Content))
		}
		out[b] = m
	}
	return out, nil
}

// gCompare checks the per-branch view against git; returns a problem description.
func gCompare(view map[string]map[string][]string, g *gRepo, branches []string) string {
	var probs []string
	for _, b := range branches {
		tree := g.tree(b)
		got := view[b]
		for p, c := range tree {
			docs := got[p]
			switch {
			case len(docs) == 0:
				probs = append(probs, fmt.Sprintf("branch %s: %s is in the head commit but no document is found", b, p))
			case len(docs) > 1:
				probs = append(probs, fmt.Sprintf("branch %s: %s found %d times", b, p, len(docs)))
			case docs[0] != c && !isSkipMarker(docs[0]):
				probs = append(probs, fmt.Sprintf("branch %s: %s has content %q, head has %q", b, p, docs[0], c))
			}
		}
		for p := range got {
			if _, ok := tree[p]; !ok {
				probs = append(probs, fmt.Sprintf("branch %s: document %s found but the path is not in the head commit", b, p))
			}
		}
	}
	sort.Strings(probs)
	if len(probs) > 4 {
		probs = append(probs[:4], fmt.Sprintf("... %d more", len(probs)-4))
	}
	return strings.Join(probs, "; ")
}

func isSkipMarker(s string) bool { return strings.HasPrefix(s, "NOT-INDEXED:") }

func gOpts(repoDir, indexDir string, branches []string) Options {
	return Options{
		RepoDir:  filepath.Join(repoDir, ".git"),
		Branches: branches,
		BuildOptions: index.Options{
			IndexDir: indexDir, DisableCTags: true, Parallelism: 1,
			RepositoryDescription: zoekt.Repository{ID: 42, Name: "gitrepo"},
		},
	}
}

func lsNames(dir string) []string {
	var out []string
	es, _ := os.ReadDir(dir)
	for _, e := range es {
		out = append(out, e.Name())
	}
	sort.Strings(out)
	return out
}

func gCopyDir(src, dst string) {
	os.MkdirAll(dst, 0o755)
	es, _ := os.ReadDir(src)
	for _, e := range es {
		if e.IsDir() {
			continue
		}
		b, err := os.ReadFile(filepath.Join(src, e.Name()))
		if err != nil {
			panic(err)
		}
		os.WriteFile(filepath.Join(dst, e.Name()), b, 0o644)
	}
}

var gMu = make(chan struct{}, 1)

func gWithProc(p *simrt.Proc, f func()) (completed bool) {
	gMu <- struct{}{}
	defer func() { <-gMu }()
	simos.SetSeqProc(p)
	defer simos.SetSeqProc(nil)
	done := make(chan struct{})
	go func() {
		defer close(done)
		f()
		completed = true
	}()
	<-done
	return
}

func gHash(ss ...string) uint64 {
	h := uint64(0xcbf29ce484222325)
	for _, s := range ss {
		for i := 0; i < len(s); i++ {
			h ^= uint64(s[i])
			h *= 0x100000001b3
		}
		h ^= 0xfe
		h *= 0x100000001b3
	}
	return h
}

var _ = bytes.Equal
