package gitindex

import (
	"fmt"
	"os"
	"path/filepath"
	"sort"
	"strings"
	"testing"

	"github.com/sourcegraph/zoekt"
	"github.com/sourcegraph/zoekt/internal/verifsim/hx"
	"github.com/sourcegraph/zoekt/internal/verifsim/simexec"
	"github.com/sourcegraph/zoekt/internal/verifsim/simrt"
	"github.com/sourcegraph/zoekt/query"
	"github.com/sourcegraph/zoekt/search"
)

// C14: git indexing captures exactly the indexed branch trees. Claimed part:
// the streaming `git cat-file --batch` path under stream faults (arbitrary
// chunking, early EOF, killed child) and the equality of the two blob-reading
// paths on generated repositories; ignore files and submodules are input space
// and not claimed.

func init() { hx.Register("C14", "C14", runC14) }

// docSet: "name|branches" -> content (or skip marker)
func c14Docs(indexDir string) (map[string]string, error) {
	ss, err := search.NewDirectorySearcher(indexDir)
	if err != nil {
		return nil, err
	}
	defer ss.Close()
	r, err := ss.Search(gSysCtx(), &query.Const{Value: true}, &zoekt.SearchOptions{Whole: true})
	if err != nil {
		return nil, err
	}
	out := map[string]string{}
	for _, f := range r.Files {
		br := append([]string(nil), f.Branches...)
		sort.Strings(br)
		k := f.FileName + "|" + strings.Join(br, ",")
		if _, dup := out[k]; dup {
			return nil, fmt.Errorf("document %s returned twice", k)
		}
		out[k] = string(f.Content)
	}
	return out, nil
}

func c14Model(g *gRepo, branches []string, sizeMax int) map[string]string {
	type pc struct{ path, content string }
	where := map[pc][]string{}
	for _, b := range branches {
		for p, c := range g.tree(b) {
			where[pc{p, c}] = append(where[pc{p, c}], b)
		}
	}
	out := map[string]string{}
	for k, bs := range where {
		sort.Strings(bs)
		c := k.content
		if len(c) > sizeMax || strings.ContainsRune(c, 0) {
			c = "SKIPPED"
		}
		out[k.path+"|"+strings.Join(bs, ",")] = c
	}
	return out
}

func c14Diff(got, want map[string]string) string {
	var probs []string
	for k, c := range want {
		g, ok := got[k]
		switch {
		case !ok:
			probs = append(probs, "missing document "+k)
		case c == "SKIPPED":
			if !isSkipMarker(g) {
				probs = append(probs, fmt.Sprintf("document %s should be skipped (too large/binary) but has content %q", k, trunc(g)))
			}
		case g != c:
			probs = append(probs, fmt.Sprintf("document %s has content %q, blob is %q", k, trunc(g), trunc(c)))
		}
	}
	for k := range got {
		if _, ok := want[k]; !ok {
			probs = append(probs, "unexpected document "+k)
		}
	}
	sort.Strings(probs)
	if len(probs) > 4 {
		probs = append(probs[:4], fmt.Sprintf("... %d more", len(probs)-4))
	}
	return strings.Join(probs, "; ")
}

func trunc(s string) string {
	if len(s) > 60 {
		return s[:60] + "..."
	}
	return s
}

func runC14(t *testing.T, tp *simrt.Tape, keepTrace bool) hx.Result {
	base, err := os.MkdirTemp(gDir(), "c14-")
	if err != nil {
		return hx.Result{HarnessErr: err.Error()}
	}
	defer os.RemoveAll(base)
	var res hx.Result
	res.Faults, res.Offered = map[string]int{}, map[string]int{}
	seen := map[string]bool{}
	var history []string
	report := func(sig, detail string) {
		if !seen[sig] {
			seen[sig] = true
			res.Violations = append(res.Violations, hx.Violation{Sig: sig, Detail: detail + "; repo: " + strings.Join(history, " | ")})
		}
	}
	g := newGRepo(filepath.Join(base, "repo"))
	// up to five branches (names that cannot be read as abbreviated commit hashes)
	branches := []string{"main", "dev", "rel", "next", "topic"}[:[]int{1, 2, 3, 3, 5, 5}[tp.Gen(6)]]
	sizeMax := 300
	paths := []string{"a.txt", "b.go", "dir/c.txt", "dir/sub/d.md", "dir/e.bin", "big.txt", "x/y/z.txt"}
	nCommits := tp.GenRange(2, 6)
	counter := 0
	var contents []string
	if len(branches) == 5 {
		// all branches start at the root commit (otherwise a branch created later
		// inherits the files of the branch it is created from)
		for _, b := range branches {
			g.checkout(b)
		}
	}
	if len(branches) == 5 && tp.Gen(2) == 0 {
		// (path, content) pairs on overlapping branch subsets: the branch list of a
		// document is built up branch by branch while the trees are walked
		for i, subset := range [][]int{{0, 1, 2, 3}, {0, 1, 2, 4}, {1, 3, 4}} {
			p := []string{"shared/x.txt", "shared/y.txt", "shared/z.txt"}[i]
			c := fmt.Sprintf("on branches %v\nneedle\n", subset)
			for _, bi := range subset {
				g.commit(branches[bi], []gFileOp{{kind: "write", path: p, content: c}})
			}
			history = append(history, fmt.Sprintf("write %s on branches %v", p, subset))
		}
	}
	for i := 0; i < nCommits; i++ {
		b := branches[tp.Gen(len(branches))]
		var ops []gFileOp
		n := tp.GenRange(1, 4)
		for k := 0; k < n; k++ {
			p := paths[tp.Gen(len(paths))]
			var c string
			switch tp.Gen(9) {
			case 8:
				// the same directory contents at two paths of one commit (a vendored copy):
				// two different directories with one tree hash
				for _, d := range []string{"lib", "third_party/lib"} {
					ops = append(ops, gFileOp{kind: "write", path: d + "/util.txt", content: fmt.Sprintf("shared util %d\nneedle\n", counter)},
						gFileOp{kind: "write", path: d + "/sub/more.txt", content: fmt.Sprintf("shared more %d\n", counter)})
				}
				counter++
				history = append(history, b+": write identical directories lib and third_party/lib")
				continue
			case 0:
				c = "binary\x00blob " + fmt.Sprint(counter)
			case 1:
				c = strings.Repeat(fmt.Sprintf("large line %d\n", counter), 40) // > SizeMax
			case 2:
				if len(contents) > 0 {
					c = contents[tp.Gen(len(contents))] // identical blob at another path / branch
				} else {
					c = "shared\n"
				}
			case 3:
				c = "" // empty blob
			case 4:
				ops = append(ops, gFileOp{kind: "delete", path: p})
				history = append(history, b+": delete "+p)
				continue
			default:
				c = fmt.Sprintf("text content %d for %s\nneedle\n", counter, p)
			}
			counter++
			contents = append(contents, c)
			ops = append(ops, gFileOp{kind: "write", path: p, content: c})
			history = append(history, fmt.Sprintf("%s: write %s (%d bytes)", b, p, len(c)))
		}
		g.commit(b, ops)
	}
	for _, b := range branches {
		g.checkout(b)
	}
	want := c14Model(g, branches, sizeMax)
	mkOpts := func(indexDir string) Options {
		o := gOpts(g.dir, indexDir, branches)
		o.BuildOptions.SizeMax = sizeMax
		// a non-empty LargeFiles list makes the cat-file path usable with git 2.39
		// (no --filter support): the pattern matches nothing.
		o.BuildOptions.LargeFiles = []string{"no-such-file-*"}
		return o
	}
	runIndex := func(indexDir string, catfile bool, plan *simexec.Plan) error {
		os.MkdirAll(indexDir, 0o755)
		if catfile {
			os.Setenv("ZOEKT_DISABLE_CATFILE_BATCH", "false")
		} else {
			os.Setenv("ZOEKT_DISABLE_CATFILE_BATCH", "true")
		}
		defer os.Unsetenv("ZOEKT_DISABLE_CATFILE_BATCH")
		simexec.SetPlan(plan)
		defer simexec.SetPlan(nil)
		_, err := IndexGitRepo(mkOpts(indexDir))
		return err
	}
	// 1. go-git path
	d1 := filepath.Join(base, "gogit")
	if err := runIndex(d1, false, nil); err != nil {
		report("indexing-fails|go-git", err.Error())
		return res
	}
	res.Evals++
	got1, err := c14Docs(d1)
	if err != nil {
		report("search-fails|go-git", err.Error())
		return res
	}
	if p := c14Diff(got1, want); p != "" {
		report("documents-differ-from-git|go-git", p)
	}
	// 2. cat-file path, fault free but arbitrarily chunked
	chunkSizes := []int{1, 2, 7, 64, 4096, 65536}
	mode := tp.Gen(3)
	plan := &simexec.Plan{EOFAt: -1, KillAt: -1}
	if mode > 0 {
		plan.Chunk = func() int { return chunkSizes[tp.Fault(len(chunkSizes))] }
	}
	d2 := filepath.Join(base, "catfile")
	if err := runIndex(d2, true, plan); err != nil {
		report("indexing-fails|cat-file-chunked", err.Error())
		return res
	}
	res.Evals++
	res.Faults["chunked-reads"] += int(plan.Reads)
	streamBytes := plan.Bytes
	got2, err := c14Docs(d2)
	if err != nil {
		report("search-fails|cat-file", err.Error())
		return res
	}
	if p := c14Diff(got2, want); p != "" {
		report("documents-differ-from-git|cat-file-chunked", p)
	}
	if fmt.Sprint(got1) != fmt.Sprint(got2) {
		report("go-git-and-cat-file-paths-differ|chunked", c14Diff(got2, got1))
	}
	res.Distinct = append(res.Distinct, gHash(strings.Join(history, "|"), "chunk", fmt.Sprint(mode)))
	// 3. truncated / killed stream on top of an installed index: the run must
	// fail and leave the installed index as it was
	if streamBytes > 0 {
		// the installed index is the one of an OLDER state: index, then commit more, then fail
		d3 := filepath.Join(base, "faulty")
		gCopyDir(d2, d3)
		before, _ := c14Docs(d3)
		g.commit(branches[0], []gFileOp{{kind: "write", path: "later.txt", content: "added after the first index\nneedle\n"}, {kind: "write", path: "a.txt", content: "changed after the first index\n"}})
		for _, b := range branches {
			g.checkout(b)
		}
		// a fault-free run measures the new stream length
		probe := &simexec.Plan{EOFAt: -1, KillAt: -1}
		dp := filepath.Join(base, "probe")
		if err := runIndex(dp, true, probe); err != nil {
			report("indexing-fails|cat-file", err.Error())
			return res
		}
		if probe.Bytes > 1 {
			fp := &simexec.Plan{EOFAt: -1, KillAt: -1}
			// position as a fraction of the stream: the exact length of the probe
			// stream can vary by a byte (the kill in Close races git's last flush)
			at := int64(tp.Fault(10000)) * (probe.Bytes - 2) / 10000
			kind := "early-eof"
			if tp.Fault(2) == 0 {
				fp.EOFAt = at
			} else {
				fp.KillAt = at
				kind = "child-killed"
			}
			res.Offered[kind]++
			err := runIndex(d3, true, fp)
			res.Evals++
			if fp.Truncated {
				res.Faults["early-eof"]++
			}
			if fp.Killed {
				res.Faults["child-killed"]++
			}
			after, aerr := c14Docs(d3)
			res.Distinct = append(res.Distinct, gHash(strings.Join(history, "|"), kind, fmt.Sprint(at)))
			if fp.Truncated || fp.Killed {
				wantNew := c14Model(g, branches, sizeMax)
				switch {
				case aerr != nil:
					report("index-unusable-after-faulty-stream|"+kind, aerr.Error())
				case err == nil:
					// success is fine when the cut only hit bytes nobody needed (the
					// tail of a skipped blob): then the new index must be complete
					if p := c14Diff(after, wantNew); p != "" {
						report("truncated-stream-reported-as-success-with-wrong-index|"+kind, fmt.Sprintf("stream of %d bytes cut at %d: IndexGitRepo returned nil but %s", probe.Bytes, at, p))
					}
				case fmt.Sprint(after) != fmt.Sprint(before):
					report("failed-run-changed-the-installed-index|"+kind, fmt.Sprintf("stream of %d bytes cut at %d, IndexGitRepo error: %v; installed index changed: %s; files %v", probe.Bytes, at, err, c14Diff(after, before), lsNames(d3)))
				}
			}
		}
	}
	res.Sample = map[string]any{"branches": branches, "repo": history, "documents": len(want)}
	res.Nontrivial = len(want) > 0
	res.Hash = gHash(strings.Join(history, "|"))
	return res
}
