package gitindex

import (
	"fmt"
	"github.com/sourcegraph/zoekt/internal/verifsim/simos"
	"os"
	"path/filepath"
	"regexp"
	"sort"
	"strings"
	"testing"

	"github.com/sourcegraph/zoekt/internal/verifsim/hx"
	"github.com/sourcegraph/zoekt/internal/verifsim/simrt"
)

// C13: delta builds expose the same per-branch content as full builds.
//
// One run = one generated history over a real git repository: commits on 2-3
// branches (add, modify, delete, rename, revert, same content on several
// branches, files moving between branches) interleaved with full and delta
// indexing runs. After every successful indexing run, for every indexed
// branch, a search restricted to that branch must find exactly one document
// with the head content for every path of `git ls-tree -r <branch>` and
// nothing else.

func init() { hx.Register("C13", "C13", runC13) }

var c13TmpRe = regexp.MustCompile(`\.\d+\.tmp`)

func indexOf(xs []string, x string) int {
	for i, v := range xs {
		if v == x {
			return i
		}
	}
	return 0
}

func runC13(t *testing.T, tp *simrt.Tape, keepTrace bool) hx.Result {
	base, err := os.MkdirTemp(gDir(), "c13-")
	if err != nil {
		return hx.Result{HarnessErr: err.Error()}
	}
	defer os.RemoveAll(base)
	var res hx.Result
	g := newGRepo(filepath.Join(base, "repo"))
	indexDir := filepath.Join(base, "index")
	os.MkdirAll(indexDir, 0o755)
	allBranches := []string{"main", "dev", "rel"}[:tp.GenRange(2, 3)]
	for _, b := range allBranches {
		g.checkout(b)
	}
	paths := []string{"a.txt", "b.txt", "dir/c.txt", "dir/d.go", "dir/sub/e.md", "f.txt"}
	counter := 0
	lastContent := map[string]string{}
	var history []string
	seen := map[string]bool{}
	report := func(sig, detail string) {
		if !seen[sig] {
			seen[sig] = true
			res.Violations = append(res.Violations, hx.Violation{Sig: sig, Detail: detail + "; history: " + strings.Join(history, " | ")})
		}
	}
	genCommit := func() {
		b := allBranches[tp.Gen(len(allBranches))]
		n := tp.GenRange(1, 3)
		var ops []gFileOp
		var d []string
		for i := 0; i < n; i++ {
			p := paths[tp.Gen(len(paths))]
			switch tp.Gen(11) {
			case 7, 10:
				// catch up: a path gets exactly the blob another branch has at the same path
				// (cherry-pick / merge of one file); the other branch does not change
				other := allBranches[(indexOf(allBranches, b)+1+tp.Gen(len(allBranches)-1))%len(allBranches)]
				ot := g.tree(other)
				var ps []string
				for q := range ot {
					ps = append(ps, q)
				}
				sort.Strings(ps)
				if len(ps) > 0 {
					q := ps[tp.Gen(len(ps))]
					ops = append(ops, gFileOp{kind: "write", path: q, content: ot[q]})
					d = append(d, "take "+q+" from "+other)
				}
			case 8:
				// the whole tree becomes the other branch's tree (a merge that makes them equal)
				other := allBranches[tp.Gen(len(allBranches))]
				if other != b {
					ot := g.tree(other)
					for q := range g.tree(b) {
						if _, ok := ot[q]; !ok {
							ops = append(ops, gFileOp{kind: "delete", path: q})
						}
					}
					for q, c := range ot {
						ops = append(ops, gFileOp{kind: "write", path: q, content: c})
					}
					d = append(d, "sync tree with "+other)
				}
			case 9:
				// delete on this branch a path that exists elsewhere too
				ops = append(ops, gFileOp{kind: "delete", path: p})
				d = append(d, "delete "+p)
			case 0, 1, 2:
				counter++
				c := fmt.Sprintf("content %d of %s\nline two\n", counter, p)
				lastContent[p] = c
				ops = append(ops, gFileOp{kind: "write", path: p, content: c})
				d = append(d, "write "+p)
			case 3:
				ops = append(ops, gFileOp{kind: "delete", path: p})
				d = append(d, "delete "+p)
			case 4:
				to := paths[tp.Gen(len(paths))]
				if to != p {
					ops = append(ops, gFileOp{kind: "rename", path: p, to: to})
					d = append(d, "rename "+p+"->"+to)
				}
			case 5:
				// same content as some earlier write (possibly on another branch): shared blob
				if c, ok := lastContent[paths[tp.Gen(len(paths))]]; ok {
					ops = append(ops, gFileOp{kind: "write", path: p, content: c})
					d = append(d, "write-shared "+p)
				}
			default:
				// revert to a fixed content
				ops = append(ops, gFileOp{kind: "write", path: p, content: "original " + p + "\n"})
				d = append(d, "revert "+p)
			}
		}
		g.commit(b, ops)
		history = append(history, fmt.Sprintf("commit %s {%s}", b, strings.Join(d, ", ")))
	}
	// a first commit so that branches differ
	genCommit()
	nSteps := tp.GenRange(3, 10)
	indexed := false
	afterKill := false
	branches := allBranches
	runs := 0
	for i := 0; i < nSteps; i++ {
		if tp.Gen(5) < 3 {
			genCommit()
			continue
		}
		kind := []string{"full", "delta", "delta", "delta-threshold"}[tp.Gen(4)]
		if !indexed {
			kind = "full"
		}
		if tp.Gen(8) == 0 && len(allBranches) == 3 {
			// change the indexed branch set (a delta build must fall back)
			if len(branches) == 3 {
				branches = allBranches[:2]
			} else {
				branches = allBranches
			}
		}
		if tp.Gen(5) == 0 {
			// the same branches, listed in another order (a delta build must cope or fall back)
			nb := append([]string(nil), branches...)
			for x := len(nb) - 1; x > 0; x-- {
				y := tp.Gen(x + 1)
				nb[x], nb[y] = nb[y], nb[x]
			}
			branches = nb
		}
		o := gOpts(g.dir, indexDir, branches)
		switch kind {
		case "delta":
			o.BuildOptions.IsDelta = true
		case "delta-threshold":
			o.BuildOptions.IsDelta = true
			o.DeltaShardNumberFallbackThreshold = uint64(tp.GenRange(1, 3))
		}
		if indexed && tp.Gen(6) == 0 {
			// this run is killed at a fault-stream-chosen file-system operation: what it
			// leaves behind is C12's subject; what matters here is that the following
			// runs (full or delta, on top of whatever is there) give the right view again
			k := 1 + tp.Fault(40)
			p := simos.NewProc("indexer", simos.Plan{CrashAt: k})
			completed := gWithProc(p, func() { IndexGitRepo(o) })
			if res.Faults == nil {
				res.Faults, res.Offered = map[string]int{}, map[string]int{}
			}
			res.Offered["kill"]++
			if !completed {
				res.Faults["kill"]++
				killedAt := ""
				for _, op := range simos.StateOf(p).Log {
					killedAt = fmt.Sprintf("after %d ops, last %s %s", op.K, op.Name, c13TmpRe.ReplaceAllString(filepath.Base(op.Path), ".*.tmp"))
				}
				history = append(history, fmt.Sprintf("index %s %v KILLED before its file-system operation %d (%s)", kind, branches, k, killedAt))
				afterKill = true
				continue
			}
		}
		history = append(history, fmt.Sprintf("index %s %v", kind, branches))
		_, err := IndexGitRepo(o)
		res.Evals++
		runs++
		if err != nil {
			report("indexing-fails|"+kind, err.Error())
			break
		}
		indexed = true
		view, err := gView(indexDir, branches)
		if err != nil {
			report("search-fails-after-index|"+kind, err.Error()+fmt.Sprintf(" files %v", lsNames(indexDir)))
			break
		}
		if p := gCompare(view, g, branches); p != "" {
			sub := kind
			if afterKill {
				sub += "|after-killed-run"
			}
			report("branch-view-differs-from-git|"+sub, p+fmt.Sprintf("; index files %v", lsNames(indexDir)))
			break
		}
		res.Distinct = append(res.Distinct, gHash(strings.Join(history, "|")))
	}
	if runs == 0 {
		// make every run evaluate at least once
		o := gOpts(g.dir, indexDir, branches)
		history = append(history, fmt.Sprintf("index full %v", branches))
		if _, err := IndexGitRepo(o); err != nil {
			report("indexing-fails|full", err.Error())
		} else if view, err := gView(indexDir, branches); err != nil {
			report("search-fails-after-index|full", err.Error())
		} else if p := gCompare(view, g, branches); p != "" {
			report("branch-view-differs-from-git|full", p)
		}
		res.Evals++
		res.Distinct = append(res.Distinct, gHash(strings.Join(history, "|")))
	}
	res.Sample = map[string]any{"branches": allBranches, "history": history}
	res.Nontrivial = true
	res.Hash = gHash(strings.Join(history, "|"))
	return res
}
