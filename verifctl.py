#!/usr/bin/env python3
"""verifctl: build the instrumented scratch copy of /repo, run simulation
workers, aggregate, triage against known findings, write evidence.

exit 0: property held on everything explored (known findings are reported)
exit 1: a violation not listed in known-findings.jsonl (VIOLATION line printed)
exit 2: build trouble, watchdog, nondeterminism tripwire (never a verdict)
"""
import hashlib, json, os, shutil, subprocess, sys, time, glob, re

VERIF = os.path.dirname(os.path.abspath(__file__))
REPO = os.environ.get("VERIF_REPO", "/repo")
SCRATCH_ROOT = os.environ.get("VERIF_SCRATCH", "/dev/shm/verif-build")
NWORKERS = int(os.environ.get("VERIF_WORKERS", "8"))

sys.path.insert(0, VERIF)
from proptable import PROPS, GROUPS  # noqa: E402


def gobin():
    cands = sorted(glob.glob("/root/go/pkg/mod/golang.org/toolchain@v0.0.1-go1.25.*.linux-amd64/bin/go"))
    if cands:
        return cands[-1]
    return "go"


GO = gobin()
GOENV = dict(os.environ, GOFLAGS="-mod=mod", GOPROXY="off", GOSUMDB="off", GOTOOLCHAIN="local", GONOSUMDB="*", GONOSUMCHECK="1", GOFLAGS_EXTRA="")
GOENV.pop("GOFLAGS_EXTRA")

INSTR_PKGS = [
    "search", "index", "gitindex",
    "cmd/zoekt-sourcegraph-indexserver", "cmd/zoekt-merge-index", "cmd/zoekt-local-sync",
    "cmd/zoekt-webserver/grpc/server", "grpc/chunk",
]
ENTRY_PKGS = ["zoekt/search", "cmd/zoekt-sourcegraph-indexserver", "grpc/server"]


def log(*a):
    print("[verifctl]", *a, file=sys.stderr, flush=True)


def die2(msg):
    print("BUILD-TROUBLE:", msg, flush=True)
    sys.exit(2)


def tree_hash():
    h = hashlib.sha256()
    def add_tree(root, rel_filter=None):
        for dp, dn, fn in os.walk(root):
            dn[:] = sorted(d for d in dn if d not in (".git", "evidence", "replays", "seeded", "bin", ".proto", "__pycache__", "node_modules"))
            for f in sorted(fn):
                if not (f.endswith(".go") or f in ("go.mod", "go.sum", "TARGET") or f.endswith(".s")):
                    continue
                p = os.path.join(dp, f)
                h.update(p.encode())
                try:
                    with open(p, "rb") as fh:
                        h.update(fh.read())
                except OSError:
                    pass
    add_tree(REPO)
    add_tree(os.path.join(VERIF, "sim"))
    add_tree(os.path.join(VERIF, "harness"))
    h.update(GO.encode())
    return h.hexdigest()[:24]


def run(cmd, cwd=None, env=None, timeout=None, check=True):
    p = subprocess.run(cmd, cwd=cwd, env=env or GOENV, stdout=subprocess.PIPE, stderr=subprocess.STDOUT, timeout=timeout, text=True)
    if check and p.returncode != 0:
        return p.returncode, p.stdout
    return p.returncode, p.stdout


def ensure_siminst():
    out = os.path.join(VERIF, "bin", "siminst")
    src = os.path.join(VERIF, "sim", "siminst", "main.go")
    if os.path.exists(out) and os.path.getmtime(out) >= os.path.getmtime(src):
        return out
    os.makedirs(os.path.dirname(out), exist_ok=True)
    rc, o = run([GO, "build", "-o", out, "."], cwd=os.path.dirname(src))
    if rc != 0:
        die2("cannot build siminst:\n" + o)
    return out


def build_tree(key):
    """Create the instrumented copy; returns its directory."""
    root = os.path.join(SCRATCH_ROOT, key)
    repo = os.path.join(root, "repo")
    stamp = os.path.join(root, "TREE_OK")
    if os.path.exists(stamp):
        try:
            os.utime(root, None)
        except OSError:
            pass
        return root
    # only keep a few cached trees
    os.makedirs(SCRATCH_ROOT, exist_ok=True)
    olds = sorted((os.path.getmtime(os.path.join(SCRATCH_ROOT, d)), d) for d in os.listdir(SCRATCH_ROOT))
    now = time.time()
    for i, (mt, d) in enumerate(olds):
        # keep recent trees (other checks may be using them); never more than 40
        if now - mt > 3 * 3600 or i < len(olds) - 40:
            shutil.rmtree(os.path.join(SCRATCH_ROOT, d), ignore_errors=True)
    shutil.rmtree(root, ignore_errors=True)
    os.makedirs(repo)
    t0 = time.time()
    rc, o = run(["rsync", "-a", "--exclude", ".git", "--exclude", "node_modules", REPO + "/", repo + "/"], env=os.environ)
    if rc != 0:
        die2("rsync failed: " + o)
    # the repository's own tests in instrumented packages are not ours to run
    for pkg in INSTR_PKGS:
        for f in glob.glob(os.path.join(repo, pkg, "*_test.go")):
            os.remove(f)
    # runtime
    vs = os.path.join(repo, "internal", "verifsim")
    shutil.copytree(os.path.join(VERIF, "sim", "rt"), vs)
    # private instrumented copy of x/sync/semaphore
    rc, o = run([GO, "list", "-m", "-f", "{{.Dir}}", "golang.org/x/sync"], cwd=repo)
    if rc != 0:
        die2("cannot locate golang.org/x/sync: " + o)
    semsrc = os.path.join(o.strip().splitlines()[-1], "semaphore", "semaphore.go")
    os.makedirs(os.path.join(vs, "ssema"), exist_ok=True)
    with open(semsrc) as fh:
        src = fh.read()
    src = re.sub(r"(?m)^package semaphore.*$", "package ssema", src, count=1)
    with open(os.path.join(vs, "ssema", "semaphore.go"), "w") as fh:
        fh.write(src)
    with open(os.path.join(vs, "ssema", "peek.go"), "w") as fh:
        fh.write("package ssema\n\n// PeekCur returns the current occupancy without yielding (harness use).\nfunc (s *Weighted) PeekCur() int64 { return s.cur }\n\n// PeekSize returns the capacity.\nfunc (s *Weighted) PeekSize() int64 { return s.size }\n\n// PeekWaiters returns the number of queued waiters.\nfunc (s *Weighted) PeekWaiters() int { return s.waiters.Len() }\n")
    rc, o = run([GO, "mod", "edit", "-require=github.com/anishathalye/porcupine@v1.3.0"], cwd=repo)
    if rc != 0:
        die2("go mod edit failed: " + o)
    siminst = ensure_siminst()
    pkgs = ["github.com/sourcegraph/zoekt/internal/verifsim/ssema"] + ["github.com/sourcegraph/zoekt/" + p for p in INSTR_PKGS if os.path.isdir(os.path.join(repo, p))]
    rc, o = run([siminst, "-go", GO, "-entry", ",".join(ENTRY_PKGS), "-stats", os.path.join(root, "siminst-stats.json"), repo] + pkgs, cwd=repo)
    with open(os.path.join(root, "siminst.log"), "w") as fh:
        fh.write(o)
    if rc != 0:
        die2("siminst failed (the tree may not compile):\n" + o[-4000:])
    # harness sources
    for hd in sorted(os.listdir(os.path.join(VERIF, "harness"))):
        hp = os.path.join(VERIF, "harness", hd)
        tf = os.path.join(hp, "TARGET")
        if not os.path.exists(tf):
            continue
        target = os.path.join(repo, open(tf).read().strip())
        os.makedirs(target, exist_ok=True)
        for f in os.listdir(hp):
            if f.endswith(".go"):
                shutil.copy(os.path.join(hp, f), os.path.join(target, f))
    log("tree built in %.1fs at %s" % (time.time() - t0, root))
    open(stamp, "w").write("ok")
    return root


def build_group(root, group):
    """go test -c for the harness group; returns binary path."""
    binp = os.path.join(root, group + ".test")
    if os.path.exists(binp):
        return binp
    target = open(os.path.join(VERIF, "harness", group, "TARGET")).read().strip()
    t0 = time.time()
    rc, o = run([GO, "test", "-c", "-vet=off", "-o", binp, "./" + target], cwd=os.path.join(root, "repo"), timeout=1500)
    if rc != 0:
        die2("cannot build harness group %s:\n%s" % (group, o[-6000:]))
    log("group %s built in %.1fs" % (group, time.time() - t0))
    return binp


ULIMIT_KB = [int(os.environ.get("VERIF_ULIMIT_KB", "8000000"))]


def ulimit_wrap(cmd):
    return ["bash", "-c", "ulimit -v %d; exec \"$@\"" % ULIMIT_KB[0], "w"] + cmd


def spawn_workers(binp, harness, seed, total_runs, deadline_s, outdir, extra_env=None, nworkers=None, progress=False):
    nworkers = nworkers or NWORKERS
    os.makedirs(outdir, exist_ok=True)
    procs = []
    for w in range(nworkers):
        env = dict(os.environ)
        env.update({
            "VERIF_HARNESS": harness, "VERIF_SEED": str(seed),
            "VERIF_RUN_FROM": str(w), "VERIF_RUN_TO": str(total_runs), "VERIF_RUN_STRIDE": str(nworkers),
            "VERIF_OUT": os.path.join(outdir, "w%d.json" % w), "VERIF_DEADLINE_S": str(deadline_s),
            "GOMAXPROCS": env.get("VERIF_GOMAXPROCS", "2"), "GOTRACEBACK": "all",
        })
        if extra_env:
            env.update(extra_env)
        if progress:
            env["VERIF_PROGRESS"] = os.path.join(outdir, "w%d.progress" % w)
        lf = open(os.path.join(outdir, "w%d.log" % w), "w")
        p = subprocess.Popen(ulimit_wrap([binp, "-test.run", "^TestVerif$", "-test.timeout", "0", "-test.count", "1"]), env=env, stdout=lf, stderr=subprocess.STDOUT, cwd=outdir)
        procs.append((w, p, lf))
    return procs


def run_pool(binp, sub, harness, seed, total_runs, deadline_s, outdir, nworkers):
    """Run the workers; a worker that dies is resumed after the case it died on."""
    os.makedirs(outdir, exist_ok=True)
    t_end = time.time() + deadline_s
    hard_end = t_end + sub.get("grace_s", 180)
    slots = {}
    results, deaths = [], []

    def spawn(w, frm, skip, gen):
        env = dict(os.environ)
        base = os.path.join(outdir, "w%d.r%d" % (w, gen))
        env.update({
            "VERIF_HARNESS": harness, "VERIF_SEED": str(seed),
            "VERIF_RUN_FROM": str(frm), "VERIF_RUN_TO": str(total_runs), "VERIF_RUN_STRIDE": str(nworkers),
            "VERIF_OUT": base + ".json", "VERIF_DEADLINE_S": str(max(1, int(t_end - time.time()))),
            "VERIF_PROGRESS": base + ".progress", "VERIF_SKIP": ",".join(str(x) for x in skip),
            "GOMAXPROCS": env.get("VERIF_GOMAXPROCS", "2"), "GOTRACEBACK": "all",
            "VERIF_IMGCACHE": os.path.join(os.path.dirname(binp), "imgcache"),
        })
        if sub.get("env"):
            env.update(sub["env"])
        lf = open(base + ".log", "w")
        p = subprocess.Popen(ulimit_wrap([binp, "-test.run", "^TestVerif$", "-test.timeout", "0", "-test.count", "1"]), env=env, stdout=lf, stderr=subprocess.STDOUT, cwd=outdir)
        slots[w] = dict(p=p, lf=lf, base=base, frm=frm, skip=list(skip), gen=gen)

    for w in range(nworkers):
        spawn(w, w, [], 0)
    while slots:
        time.sleep(0.05)
        for w in list(slots):
            sl = slots[w]
            rc = sl["p"].poll()
            if rc is None:
                if time.time() > hard_end:
                    sl["p"].kill()
                    sl["p"].wait()
                    rc = -999
                else:
                    continue
            sl["lf"].close()
            del slots[w]
            base = sl["base"]
            if rc == 0 and os.path.exists(base + ".json"):
                results.append(json.load(open(base + ".json")))
                continue
            # died: keep what the checkpoint covered, find the culprit, resume after it
            tail = ""
            try:
                tail = open(base + ".log").read()[-20000:]
            except OSError:
                pass
            nxt = sl["frm"]
            if os.path.exists(base + ".json.ckpt"):
                try:
                    ck = json.load(open(base + ".json.ckpt"))
                    results.append(ck)
                    nxt = ck.get("next", nxt)
                except Exception:
                    pass
            culprit = None
            try:
                culprit = int(open(base + ".progress").read().strip())
            except Exception:
                pass
            deaths.append(dict(worker=w, rc=rc, culprit=culprit, tail=tail))
            if rc == -999 or culprit is None or time.time() > t_end - 2 or sl["gen"] >= sub.get("max_respawns", 400):
                continue
            spawn(w, nxt, sl["skip"] + [culprit], sl["gen"] + 1)
    return results, deaths


def wait_workers(procs, watchdog_s):
    t0 = time.time()
    res = {}
    for w, p, lf in procs:
        left = max(5, watchdog_s - (time.time() - t0))
        try:
            rc = p.wait(timeout=left)
        except subprocess.TimeoutExpired:
            p.kill()
            rc = -999
        lf.close()
        res[w] = rc
    return res


def load_known():
    out = []
    p = os.path.join(VERIF, "known-findings.jsonl")
    if os.path.exists(p):
        for line in open(p):
            line = line.strip()
            if line and not line.startswith("#"):
                out.append(json.loads(line))
    return out


def write_evidence(pid, ev):
    evdir = os.environ.get("VERIF_EVIDENCE_DIR") or os.path.join(VERIF, "evidence")
    os.makedirs(evdir, exist_ok=True)
    with open(os.path.join(evdir, pid + ".json"), "w") as fh:
        json.dump(ev, fh, indent=1, sort_keys=True)


def sweep_worker_scratch(max_age_s=90 * 60):
    """Worker processes keep their per-process scratch directory (/dev/shm/verif-<group>-*) until they
    exit and do not remove it themselves; drop the ones no running check can still be using."""
    now = time.time()
    for d in glob.glob("/dev/shm/verif-*-*"):
        if os.path.basename(d).startswith("verif-build"):
            continue
        try:
            if now - os.path.getmtime(d) > max_age_s:
                shutil.rmtree(d, ignore_errors=True)
        except OSError:
            pass


def check(pid, tier, seed, replay=None):
    if pid not in PROPS:
        die2("unknown property " + pid)
    sweep_worker_scratch()
    spec = PROPS[pid]
    t_start = time.time()
    key = tree_hash()
    root = build_tree(key)
    group = spec["group"]
    binp = build_group(root, group)
    bins = {}
    for sub in spec["harnesses"]:
        bins[sub["name"]] = build_group(root, sub.get("group", group))
    build_s = time.time() - t_start
    outroot = os.path.join(root, "runs", "%s-%s-%d-%d" % (pid, tier, seed, os.getpid()))
    shutil.rmtree(outroot, ignore_errors=True)
    os.makedirs(outroot)

    if replay:
        v0 = json.load(open(replay))
        return do_replay(pid, spec, bins.get(v0.get("harness"), binp), replay, outroot)

    known = [k for k in load_known() if k.get("property") == pid]
    agg = dict(runs=0, evals=0, steps=0, switches=0, sim_ms=0, hashes=set(), pairs=set(), probes={}, faults={}, offered={}, sites={}, samples=[], sigs={}, herrs=[], viols=[], wall=0.0, early=False)
    sub_reports = []
    for sub in spec["harnesses"]:
        hname = sub["name"]
        runs = sub[tier]
        deadline = sub.get(tier + "_deadline_s", 240 if tier == "quick" else 1500)
        # VERIF_DEADLINE_SCALE shortens/lengthens the wall-clock budget of a batch (runs are cut, never verdicts)
        deadline = max(10, int(deadline * float(os.environ.get("VERIF_DEADLINE_SCALE", "1"))))
        od = os.path.join(outroot, hname.replace("/", "_"))
        t0 = time.time()
        nw = sub.get("workers")
        ULIMIT_KB[0] = int(sub.get("ulimit_kb", os.environ.get("VERIF_ULIMIT_KB", "8000000")))
        results, deaths = run_pool(bins[hname], sub, hname, seed, runs, deadline, od, nw or NWORKERS)
        sub_wall = time.time() - t0
        sr = dict(harness=hname, runs=0, evals=0, wall_s=round(sub_wall, 1), worker_deaths=len(deaths))
        for d in results:
            for k in ("runs", "evals", "steps", "switches", "sim_ms"):
                agg[k] += d.get(k, 0)
            sr["runs"] += d.get("runs", 0)
            sr["evals"] += d.get("evals", 0)
            agg["hashes"].update(d.get("nontrivial_hashes") or [])
            agg["pairs"].update(d.get("pairs") or [])
            for name in ("probes", "faults", "offered", "sites"):
                src = d.get({"faults": "faults_fired", "offered": "faults_offered"}.get(name, name)) or {}
                for k, v in src.items():
                    agg[name][k] = agg[name].get(k, 0) + v
            for smp in d.get("samples") or []:
                if len(agg["samples"]) < 3:
                    agg["samples"].append({"harness": hname, "case": smp})
            for k, v in (d.get("sig_counts") or {}).items():
                agg["sigs"][k] = agg["sigs"].get(k, 0) + v
            agg["herrs"].extend(d.get("harness_errors") or [])
            agg["viols"].extend(d.get("violations") or [])
            agg["early"] = agg["early"] or d.get("stopped_early", False)
        # worker deaths: one confirmation per distinct crash site
        by_site = {}
        for dth in deaths:
            kind, site = crash_site(dth["tail"]) if dth["rc"] != 3 else ("watchdog: case did not finish", "hang")
            dth["kind"], dth["site"] = kind, site
            by_site.setdefault(site, []).append(dth)
        for site, lst in sorted(by_site.items()):
            if not sub.get("crash_is_violation"):
                agg["herrs"].append("worker of %s died (%s at %s): %s" % (hname, lst[0]["kind"], site, lst[0]["tail"][-600:]))
                continue
            confirmed = None
            for dth in lst[:3]:
                if dth["culprit"] is None:
                    continue
                rc1, out1 = run_single(bins[hname], hname, seed, dth["culprit"], od, sub.get("env"))
                if rc1 != 0:
                    k2, s2 = crash_site(out1) if rc1 != -999 and rc1 != 3 else ("watchdog: case did not finish", "hang")
                    confirmed = (dth, k2, s2, rc1, out1)
                    break
            if confirmed is None:
                agg["herrs"].append("%d worker death(s) of %s at %s did not reproduce when the case was re-run alone (e.g. run %s): %s" % (len(lst), hname, site, lst[0]["culprit"], lst[0]["tail"][-600:]))
                continue
            dth, k2, s2, rc1, out1 = confirmed
            sig = "%s|process-crash|%s" % (pid, s2)
            agg["viols"].append({"property": pid, "harness": hname, "batch_seed": seed, "run": dth["culprit"], "sig": sig, "process_crash": True,
                                 "detail": "the serving process dies on this single case: %s at %s (rc=%s); %d worker death(s) at this site in this batch" % (k2, s2, rc1, len(lst)), "tail": out1[-3000:]})
            agg["sigs"][sig] = agg["sigs"].get(sig, 0) + len(lst)
        sub_reports.append(sr)
    wall = time.time() - t_start

    # triage
    replay_root = os.environ.get("VERIF_REPLAY_DIR") or os.path.join(VERIF, "replays")
    os.makedirs(os.path.join(replay_root, pid), exist_ok=True)
    known_sigs = {k["signature"]: k for k in known if k.get("status") == "known"}
    new_viol = {}
    known_hit = {}
    for v in agg["viols"]:
        sig = v["sig"]
        if sig in known_sigs:
            known_hit.setdefault(sig, v)
        else:
            new_viol.setdefault(sig, v)
    lines = []
    rc = 0
    for sig, v in sorted(known_hit.items()):
        lines.append("KNOWN-FINDING: property=%s %s (%s) x%d" % (pid, sig, known_sigs[sig].get("what", ""), agg["sigs"].get(sig, 1)))
    confirmed = 0
    for sig, v in sorted(new_viol.items()):
        rp = os.path.join(replay_root, pid, "%s-%d-%s.json" % (tier, seed, hashlib.sha1(sig.encode()).hexdigest()[:8]))
        with open(rp, "w") as fh:
            json.dump(v, fh, indent=1)
        if v.get("process_crash"):
            ok = True
        else:
            ok = confirm_replay(bins.get(v["harness"], binp), v["harness"], rp, outroot, next((s.get("env") for s in spec["harnesses"] if s["name"] == v["harness"]), None))
        if ok:
            confirmed += 1
            lines.append("VIOLATION property=%s replay=%s sig=%s detail=%s" % (pid, rp, sig, (v.get("detail") or "")[:300].replace("\n", " ")))
            rc = 1
        else:
            agg["herrs"].append("violation %s did not reproduce from its replay file %s" % (sig, rp))
    if agg["herrs"]:
        if rc == 0:
            rc = 2
    nd = len(agg["hashes"])
    ev = {
        "property_id": pid, "tier": tier, "seed": seed, "level": spec["level"],
        "coverage": {
            "evaluations": agg["evals"],
            "distinct_nontrivial": nd,
            "rule": spec["rule"],
            "samples": agg["samples"] or [{"note": "no non-trivial sample recorded"}],
            "simulated_runs": agg["runs"],
            "runs_per_hour": int(agg["runs"] / max(wall - build_s, 0.001) * 3600),
            "seeds_per_hour": int(agg["runs"] / max(wall - build_s, 0.001) * 3600),
            "simulated_seconds_covered": agg["sim_ms"] / 1000.0,
            "steps": agg["steps"], "context_switches": agg["switches"],
            "distinct_ordered_site_pairs": len(agg["pairs"]),
            "distinct_sites_scheduled": len(agg["sites"]),
            "faults_fired": agg["faults"], "faults_offered": agg["offered"],
            "reach_probes": agg["probes"],
            "reach_gaps": [p for p in spec.get("expect_probes", []) if agg["probes"].get(p, 0) == 0] + ["fault:" + f for f in spec.get("expect_faults", []) if agg["faults"].get(f, 0) == 0],
            "harnesses": sub_reports,
            "components": spec.get("components", {}),
            "uninstrumented_sites": load_uninstr(root),
            "known_findings_reproduced": sorted(known_hit.keys()),
            "violation_signatures": agg["sigs"],
            "harness_errors": agg["herrs"][:10],
            "stopped_early_by_deadline": agg["early"],
            "build_s": round(build_s, 1),
            "exhaustive": False,
        },
        "assumptions": spec.get("assumptions", []),
        "wall_s": round(wall, 1),
        "violations": confirmed,
    }
    write_evidence(pid, ev)
    for l in lines:
        print(l, flush=True)
    print("RESULT property=%s tier=%s seed=%d runs=%d evals=%d distinct=%d violations=%d known=%d harness_errors=%d wall=%.0fs" % (pid, tier, seed, agg["runs"], agg["evals"], nd, confirmed, len(known_hit), len(agg["herrs"]), wall), flush=True)
    for e in agg["herrs"][:5]:
        print("HARNESS-ERROR:", e[:1500], flush=True)
    if rc == 0 and not os.environ.get("VERIF_KEEP"):
        shutil.rmtree(outroot, ignore_errors=True)
    return rc


def load_uninstr(root):
    try:
        st = json.load(open(os.path.join(root, "siminst-stats.json")))
        out = []
        for p, s in st.items():
            for u in s.get("uninstrumented_sites") or []:
                out.append(p.split("zoekt/")[-1] + ": " + u)
        return out
    except Exception:
        return []


def confirm_replay(binp, harness, rp, outroot, extra_env):
    env = dict(os.environ)
    env.update({"VERIF_HARNESS": harness, "VERIF_REPLAY": rp, "VERIF_OUT": os.path.join(outroot, "replay-out.json"), "GOMAXPROCS": "2", "VERIF_IMGCACHE": os.path.join(os.path.dirname(binp), "imgcache")})
    if extra_env:
        env.update(extra_env)
    try:
        p = subprocess.run(ulimit_wrap([binp, "-test.run", "^TestVerif$", "-test.timeout", "0"]), env=env, stdout=subprocess.PIPE, stderr=subprocess.STDOUT, text=True, timeout=600, cwd=outroot)
    except subprocess.TimeoutExpired:
        return False
    try:
        ro = json.load(open(os.path.join(outroot, "replay-out.json")))
    except Exception:
        return False
    return bool(ro.get("reproduced"))


def do_replay(pid, spec, binp, rp, outroot):
    v = json.load(open(rp))
    if v.get("process_crash"):
        sub = next(s for s in spec["harnesses"] if s["name"] == v["harness"])
        rc, tail = run_single(binp, v["harness"], v["batch_seed"], v["run"], outroot, sub.get("env"))
        if rc != 0:
            print("REPRODUCED property=%s sig=%s (process died rc=%s)" % (pid, v["sig"], rc))
            print(tail[-2000:])
            return 1
        print("NOT-REPRODUCED property=%s" % pid)
        return 2
    env = dict(os.environ)
    sub = next((s for s in spec["harnesses"] if s["name"] == v["harness"]), {})
    env.update({"VERIF_HARNESS": v["harness"], "VERIF_REPLAY": rp, "VERIF_OUT": os.path.join(outroot, "replay-out.json"), "GOMAXPROCS": "2", "VERIF_IMGCACHE": os.path.join(os.path.dirname(binp), "imgcache")})
    if sub.get("env"):
        env.update(sub["env"])
    p = subprocess.run(ulimit_wrap([binp, "-test.run", "^TestVerif$", "-test.timeout", "0"]), env=env, stdout=subprocess.PIPE, stderr=subprocess.STDOUT, text=True, cwd=outroot)
    try:
        ro = json.load(open(os.path.join(outroot, "replay-out.json")))
    except Exception:
        print(p.stdout[-3000:])
        print("BUILD-TROUBLE: replay produced no output")
        return 2
    if ro.get("reproduced"):
        print("REPRODUCED property=%s sig=%s same_hash=%s\ndetail: %s" % (pid, v["sig"], ro.get("same_hash"), ro.get("detail")))
        for l in (ro.get("trace_tail") or [])[-40:]:
            print("  " + l)
        print("VIOLATION property=%s replay=%s" % (pid, rp))
        return 1
    print("NOT-REPRODUCED property=%s expected=%s got=%s" % (pid, v["sig"], ro.get("got_sigs")))
    return 2


def run_single(binp, harness, seed, run_idx, outdir, extra_env):
    env = dict(os.environ)
    env.update({"VERIF_HARNESS": harness, "VERIF_SEED": str(seed), "VERIF_RUN_FROM": str(run_idx), "VERIF_RUN_TO": str(run_idx + 1),
                "VERIF_RUN_STRIDE": "1", "VERIF_OUT": os.path.join(outdir, "single.json"), "GOMAXPROCS": "2", "VERIF_MIN_S": "0", "GOTRACEBACK": "all",
                "VERIF_IMGCACHE": os.path.join(os.path.dirname(binp), "imgcache")})
    if extra_env:
        env.update(extra_env)
    try:
        p = subprocess.run(ulimit_wrap([binp, "-test.run", "^TestVerif$", "-test.timeout", "0"]), env=env, stdout=subprocess.PIPE, stderr=subprocess.STDOUT, text=True, timeout=300, cwd=outdir)
        return p.returncode, p.stdout
    except subprocess.TimeoutExpired as e:
        return -999, "watchdog: single run exceeded 300 s\n" + ((e.stdout or b"").decode("utf8", "replace") if isinstance(e.stdout, bytes) else (e.stdout or ""))


def crash_site(tail):
    """Derive a stable site from a Go crash dump: the first zoekt (non-harness) function frame
    of the crashing goroutine (function name, so that it survives line shifts)."""
    kind = "fatal"
    m = re.search(r"^(panic: .*|fatal error: .*|SIGSEGV.*|SIGBUS.*|unexpected fault address.*|watchdog.*|runtime: out of memory.*)$", tail, re.M)
    if m:
        kind = re.sub(r"0x[0-9a-f]+|\d+", "N", m.group(1))[:80]
    start = m.start() if m else 0
    for fm in re.finditer(r"^github\.com/sourcegraph/zoekt/((?:index|search|gitindex|cmd|grpc|query|internal)[\w/\-]*)\.([\w\(\)\*\.\[\]]+?)(?:\(|\{)", tail[start:], re.M):
        pkg, fn = fm.group(1), fm.group(2)
        if "verifsim" in pkg or fn.startswith("runC") or fn.startswith("TestVerif") or "zz_verif" in fn:
            continue
        fn = re.sub(r"\.func\d+(\.\d+)*$", "", fn)
        return kind, pkg + "." + fn
    return kind, "unknown"


def handle_worker_death(pid, spec, sub, binp, seed, runs, w, rc, tail, od, nworkers):
    """Re-run the dead worker's indices one at a time to find the culprit run."""
    if not sub.get("crash_is_violation"):
        return None
    done_file = os.path.join(od, "w%d.progress" % w)
    start = w
    try:
        start = int(open(done_file).read().strip())
    except Exception:
        pass
    idx = start
    tries = 0
    while idx < runs and tries < sub.get("crash_search", 400):
        rc1, out = run_single(binp, sub["name"], seed, idx, od, sub.get("env"))
        tries += 1
        if rc1 != 0:
            kind, site = crash_site(out)
            sig = "%s|process-crash|%s" % (pid, site)
            return {"property": pid, "harness": sub["name"], "batch_seed": seed, "run": idx, "sig": sig, "process_crash": True,
                    "detail": "worker process died on this single run: %s at %s (rc=%s)" % (kind, site, rc1), "tail": out[-3000:]}
        idx += nworkers
    return None


def selftest_det(groups, seed, runs):
    """Determinism self-test: every harness, same seeds, several processes and GOMAXPROCS."""
    key = tree_hash()
    root = build_tree(key)
    bad = 0
    for pid, spec in sorted(PROPS.items()):
        if groups and spec["group"] not in groups and pid not in groups:
            continue
        for sub in spec["harnesses"]:
            binp = build_group(root, sub.get("group", spec["group"]))
            if sub.get("no_det"):
                continue
            n = min(runs, sub["quick"])
            ULIMIT_KB[0] = int(sub.get("ulimit_kb", os.environ.get("VERIF_ULIMIT_KB", "8000000")))
            dumps = []
            for gmp in ("1", "4", "16"):
                for rep in range(4):
                    od = os.path.join(root, "runs", "det-%s-%s-%d" % (sub["name"].replace("/", "_"), gmp, rep))
                    shutil.rmtree(od, ignore_errors=True)
                    os.makedirs(od)
                    env = dict(os.environ)
                    env.update({"VERIF_HARNESS": sub["name"], "VERIF_SEED": str(seed), "VERIF_RUN_FROM": "0", "VERIF_RUN_TO": str(n), "VERIF_RUN_STRIDE": "1",
                                "VERIF_OUT": os.path.join(od, "o.json"), "VERIF_MODE": "det", "VERIF_DET_DUMP": "1", "GOMAXPROCS": gmp, "VERIF_MIN_S": "0"})
                    if sub.get("env"):
                        env.update(sub["env"])
                    dumps.append((gmp, rep, od, subprocess.Popen(ulimit_wrap([binp, "-test.run", "^TestVerif$", "-test.timeout", "0"]), env=env, stdout=open(os.path.join(od, "dump.txt"), "w"), stderr=subprocess.STDOUT, cwd=od)))
            ref = None
            for gmp, rep, od, p in dumps:
                p.wait()
                lines = [l for l in open(os.path.join(od, "dump.txt")).read().splitlines() if l.startswith("DET ")]
                try:
                    d = json.load(open(os.path.join(od, "o.json")))
                except Exception:
                    print("DET-FAIL %s: worker produced no output (GOMAXPROCS=%s)" % (sub["name"], gmp))
                    bad += 1
                    continue
                if d.get("det_mismatch"):
                    print("DET-FAIL %s in-process mismatch: %s" % (sub["name"], d["det_mismatch"][:3]))
                    bad += 1
                if d.get("harness_errors"):
                    print("DET-FAIL %s harness errors: %s" % (sub["name"], d["harness_errors"][:2]))
                    bad += 1
                if ref is None:
                    ref = lines
                elif ref != lines:
                    diff = [(a, b) for a, b in zip(ref, lines) if a != b][:3]
                    print("DET-FAIL %s cross-process mismatch (GOMAXPROCS=%s): %s" % (sub["name"], gmp, diff))
                    bad += 1
                shutil.rmtree(od, ignore_errors=True)
            print("det %s: %d seeds x2 x %d processes: %s" % (sub["name"], n, len(dumps), "OK" if bad == 0 else "FAILURES so far %d" % bad), flush=True)
    return 0 if bad == 0 else 2


def main():
    args = sys.argv[1:]
    if not args:
        print(__doc__)
        return 2
    if args[0] == "setup":
        ensure_siminst()
        key = tree_hash()
        root = build_tree(key)
        for g in GROUPS:
            build_group(root, g)
        print("setup ok")
        return 0
    if args[0] == "selftest-determinism":
        groups = [a for a in args[1:] if not a.startswith("--")]
        runs = 64
        for a in args[1:]:
            if a.startswith("--runs="):
                runs = int(a.split("=")[1])
        return selftest_det(groups, int(os.environ.get("VERIF_SEED", "1")), runs)
    pid = args[0]
    tier = os.environ.get("VERIF_TIER", "quick")
    replay = None
    seed = int(os.environ.get("VERIF_SEED", "1") or "1")
    i = 1
    while i < len(args):
        if args[i] == "--tier":
            tier = args[i + 1]; i += 2
        elif args[i] == "--replay":
            replay = args[i + 1]; i += 2
        elif args[i] == "--seed":
            seed = int(args[i + 1]); i += 2
        else:
            die2("unknown argument " + args[i])
    if tier not in ("quick", "thorough"):
        tier = "quick"
    return check(pid, tier, seed, replay)


if __name__ == "__main__":
    try:
        sys.exit(main())
    except subprocess.TimeoutExpired as e:
        print("BUILD-TROUBLE: timeout:", e)
        sys.exit(2)
