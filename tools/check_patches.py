#!/usr/bin/env python3
"""Records in every seeded/<id>/meta.json whether patch.diff still applies to /repo HEAD."""
import glob, json, os, subprocess, tempfile
V = os.path.join(os.path.dirname(os.path.abspath(__file__)), "..")
head = subprocess.check_output(["git", "-C", "/repo", "rev-parse", "--short", "HEAD"], text=True).strip()
wt = tempfile.mkdtemp(prefix="applytest-", dir="/tmp")
os.rmdir(wt)
subprocess.check_call(["git", "-C", "/repo", "worktree", "add", "-q", "--detach", wt, "HEAD"])
try:
    bad = []
    for mp in sorted(glob.glob(os.path.join(V, "seeded", "C*-m*", "meta.json"))):
        d = os.path.dirname(mp)
        ok = subprocess.call(["git", "apply", "--check", os.path.join(d, "patch.diff")], cwd=wt, stderr=subprocess.DEVNULL) == 0
        m = json.load(open(mp))
        m["patch_applies_to_repo_head"] = {"commit": head, "applies": ok}
        json.dump(m, open(mp, "w"), indent=1)
        if not ok:
            bad.append(os.path.basename(d))
    print("repo HEAD", head, "- patches that do not apply:", bad)
finally:
    subprocess.call(["git", "-C", "/repo", "worktree", "remove", "--force", wt])
