#!/usr/bin/env python3
"""Regenerates the seeded-changes table in DESIGN.md from seeded/*/meta.json and seeded/NOTES.json."""
import json, os, re, glob
V = os.path.join(os.path.dirname(os.path.abspath(__file__)), "..")
notes = json.load(open(os.path.join(V, "seeded", "NOTES.json")))
rows = ["| change | property | caught by the quick check | signatures / remarks |", "|---|---|---|---|"]
n = caught = 0
for d in sorted(glob.glob(os.path.join(V, "seeded", "C*-m*"))):
    mp = os.path.join(d, "meta.json")
    if not os.path.exists(mp):
        continue
    m = json.load(open(mp))
    ok = m["confirmed_in_scratch_worktree"]
    valid = ok["demo_passes_without_change"] and ok["demo_fails_with_change"] and ok["builds"] and ok["existing_tests_pass_with_change"]
    name = m["name"]
    n += 1
    caught += 1 if m["caught_by_check"] else 0
    sigs = ", ".join("`%s`" % s.split("|", 1)[1] for s in m["check_signatures"][:3])
    if len(m["check_signatures"]) > 3:
        sigs += ", … (%d)" % len(m["check_signatures"])
    rem = notes.get(name, "")
    rows.append("| %s%s | %s | %s | %s%s |" % (name, "" if valid else " (confirmation incomplete)", m["property"], "yes" if m["caught_by_check"] else "**no**", sigs, ("; " if sigs and rem else "") + rem))
rows.append("")
rows.append("%d changes kept, %d caught by the quick tier." % (n, caught))
table = "\n".join(rows)
p = os.path.join(V, "DESIGN.md")
s = open(p).read()
if "SEEDED_TABLE" in s:
    s = s.replace("SEEDED_TABLE", "<!-- SEEDED-TABLE-BEGIN -->\n" + table + "\n<!-- SEEDED-TABLE-END -->")
else:
    s = re.sub(r"<!-- SEEDED-TABLE-BEGIN -->.*?<!-- SEEDED-TABLE-END -->", lambda _: "<!-- SEEDED-TABLE-BEGIN -->\n" + table + "\n<!-- SEEDED-TABLE-END -->", s, flags=re.S)
open(p, "w").write(s)
print(table)
