#!/bin/bash
# usage: thorough_all.sh <seed> [ids...]   (runs from the current /verif checkout or snapshot)
seed=$1; shift
ids="$@"
[ -z "$ids" ] && ids=$(python3 -c "import json;print(' '.join(c['property_id'] for c in json.load(open('MANIFEST.json'))['checks']))")
for id in $ids; do
  echo "=== $id seed=$seed $(date +%T)"
  VERIF_SEED=$seed VERIF_EVIDENCE_DIR=$PWD/evidence-thorough-$seed VERIF_REPLAY_DIR=$PWD/replays-thorough-$seed ./check $id --tier thorough 2>&1 | grep -v "^\[verifctl\]" | cut -c1-1200
  echo "rc=$?"
done
