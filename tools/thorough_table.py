#!/usr/bin/env python3
"""Prints a markdown table of thorough-tier results from `vp run` logs of tools/thorough_all.sh."""
import re, sys
rows = []
for path in sys.argv[1:]:
    commit = "?"
    for line in open(path, errors="replace"):
        m = re.match(r"RESULT property=(\S+) tier=thorough seed=(\d+) runs=(\d+) evals=(\d+) distinct=(\d+) violations=(\d+) known=(\d+) harness_errors=(\d+) wall=(\d+)s", line)
        if m:
            rows.append((m.group(1), int(m.group(2)), int(m.group(3)), int(m.group(4)), int(m.group(5)), int(m.group(6)), int(m.group(7)), int(m.group(8)), int(m.group(9)), path))
print("| property | batch seed | simulated runs | evaluations | distinct | new violations | known findings hit | wall |")
print("|---|---|---|---|---|---|---|---|")
for r in sorted(rows):
    print("| %s | %d | %d | %d | %d | %d | %d | %d s |" % r[:3] + () if False else "| %s | %d | %d | %d | %d | %d | %d | %d s |" % (r[0], r[1], r[2], r[3], r[4], r[5], r[6], r[8]))
