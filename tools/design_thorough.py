#!/usr/bin/env python3
"""(Re)writes the thorough-tier table in DESIGN.md from vp-run logs given on the command line."""
import re, subprocess, sys, os
V = os.path.join(os.path.dirname(os.path.abspath(__file__)), "..")
table = subprocess.check_output([sys.executable, os.path.join(V, "tools", "thorough_table.py")] + sys.argv[1:], text=True)
block = "<!-- THOROUGH-BEGIN -->\n" + table + "<!-- THOROUGH-END -->"
p = os.path.join(V, "DESIGN.md")
s = open(p).read()
if "<!-- THOROUGH-BEGIN -->" in s:
    s = re.sub(r"<!-- THOROUGH-BEGIN -->.*?<!-- THOROUGH-END -->", lambda _: block, s, flags=re.S)
else:
    s = s.replace("THOROUGH_TABLE", block)
open(p, "w").write(s)
