#!/bin/bash
# usage: confirm_mutant.sh <PROP> <mutdir> <name>
# Confirms a seeded change in a scratch worktree (demo passes without / fails with the
# change, tree builds, existing tests of the touched packages pass), then runs
# ./check <PROP> against /repo with the change applied and reverts it.
set -u
PROP=$1; MD=$2; NAME=$3
export GOFLAGS=-mod=mod GOPROXY=off
WT=/tmp/cm-$NAME
OUT=/verif/seeded/$NAME
mkdir -p $OUT
cp $MD/patch.diff $OUT/patch.diff
cp $MD/demo_test.go $OUT/demo_test.go.txt
[ -f $MD/README.md ] && cp $MD/README.md $OUT/README.agent.md
git -C /repo worktree remove --force $WT 2>/dev/null
git -C /repo worktree add -q --detach $WT HEAD || exit 2
place=$(grep -m1 -o 'place in: *[^ ]*' $MD/demo_test.go | sed 's/place in: *//')
place=${place%/}
[ -z "$place" ] && place=$(grep -m1 '^+++ b/' $MD/patch.diff | sed 's|+++ b/||; s|/[^/]*$||')
cp $MD/demo_test.go $WT/$place/zz_demo_test.go
cd $WT
demo_names=$(grep -o '^func Test[A-Za-z0-9_]*' $WT/$place/zz_demo_test.go | sed 's/func //' | paste -sd'|')
r_clean=$(go test -vet=off -count=1 -run "^($demo_names)\$" ./$place 2>&1 | tail -3); clean_ok=$?
go test -vet=off -count=1 -run "^($demo_names)\$" ./$place >/dev/null 2>&1; clean_rc=$?
if ! git apply $MD/patch.diff 2>/tmp/cm-$NAME.apply; then
  git apply --3way $MD/patch.diff 2>>/tmp/cm-$NAME.apply || { echo "{\"name\":\"$NAME\",\"error\":\"patch does not apply\"}" > $OUT/confirm.json; cat /tmp/cm-$NAME.apply; cd /; git -C /repo worktree remove --force $WT; exit 2; }
fi
git diff > $OUT/patch.diff
go build ./... >/tmp/cm-$NAME.build 2>&1; build_rc=$?
go test -vet=off -count=1 -run "^($demo_names)\$" ./$place >/tmp/cm-$NAME.demo 2>&1; demo_rc=$?
rm $WT/$place/zz_demo_test.go
pkgs=$(git diff --name-only | xargs -n1 dirname | sort -u | sed 's|^|./|' | paste -sd' ')
go test -vet=off -count=1 $pkgs ./search ./index >/tmp/cm-$NAME.tests 2>&1; tests_rc=$?
cd /verif
# run the check against the patched scratch worktree (same as applying the patch to /repo,
# but /repo stays clean so that other checks can run meanwhile)
VERIF_REPO=$WT VERIF_EVIDENCE_DIR=/tmp/cm-$NAME.evidence VERIF_REPLAY_DIR=$OUT/replays ./check $PROP --tier quick > $OUT/check.out 2>&1; check_rc=$?
sigs=$(grep -o 'sig=[^ ]*' $OUT/check.out | sort -u | paste -sd',')
cat > $OUT/confirm.json <<EOJ
{"name":"$NAME","property":"$PROP","demo_place":"$place","demo_tests":"$demo_names","demo_clean_rc":$clean_rc,"build_rc":$build_rc,"demo_mutant_rc":$demo_rc,"existing_tests_rc":$tests_rc,"existing_tests_pkgs":"$pkgs ./search ./index","check_rc":$check_rc,"check_sigs":"$sigs"}
EOJ
cat $OUT/confirm.json
tail -3 /tmp/cm-$NAME.tests | cut -c1-200
git -C /repo worktree remove --force $WT
python3 /verif/tools/mkmeta.py $NAME
rm -rf /tmp/cm-$NAME.*
