#!/bin/bash
# runs every registered quick check once (writes evidence/<id>.json); prints one RESULT line each
cd "$(dirname "$0")/.." || exit 2
ids=$(python3 -c "import json;print(' '.join(c['property_id'] for c in json.load(open('MANIFEST.json'))['checks']))")
rc=0
for id in $ids; do
  out=$(./check $id --tier quick 2>&1 | grep -E "^(RESULT|VIOLATION|HARNESS-ERROR|BUILD-TROUBLE)" | cut -c1-260)
  echo "$out"
  echo "$out" | grep -q "^VIOLATION\|^HARNESS-ERROR\|^BUILD-TROUBLE" && rc=1
done
exit $rc
