#!/usr/bin/env python3
"""Writes seeded/<name>/meta.json from confirm.json, the agent's README and an
optional explicit 'needs' text: which property the change breaks, what it needs
in order to manifest, what was run to confirm it, and which check signatures
caught it."""
import json, os, re, sys
name = sys.argv[1]
needs = sys.argv[2] if len(sys.argv) > 2 else None
d = os.path.join(os.path.dirname(os.path.abspath(__file__)), "..", "seeded", name)
c = json.load(open(os.path.join(d, "confirm.json")))
readme = ""
for fn in ("README.agent.md",):
    p = os.path.join(d, fn)
    if os.path.exists(p):
        readme = open(p).read()
if needs is None:
    m = re.search(r"(?is)(needed to manifest|what is needed|trigger|needs)[^\n]*\n?(.*?)(\n\s*\n\*\*|\n## |\n# |\Z)", readme)
    needs = (m.group(0).strip()[:1500] if m else "see README.agent.md")
meta = {
    "name": name,
    "property": c["property"],
    "breaks": "see README.agent.md (written by the independent sub-agent that produced the change)",
    "needs_to_manifest": needs,
    "files": {"patch": "patch.diff", "demonstration": "demo_test.go.txt (copy into ./%s as zz_demo_test.go)" % c.get("demo_place", ""), "agent_notes": "README.agent.md", "check_output": "check.out"},
    "confirmed_in_scratch_worktree": {
        "commands": [
            "git -C /repo worktree add --detach /tmp/cm-%s HEAD" % name,
            "go test -vet=off -count=1 -run '^(%s)$' ./%s   # unchanged tree: rc=%s" % (c.get("demo_tests"), c.get("demo_place"), c.get("demo_clean_rc")),
            "git apply patch.diff && go build ./...   # rc=%s" % c.get("build_rc"),
            "go test -vet=off -count=1 -run '^(%s)$' ./%s   # with the change: rc=%s" % (c.get("demo_tests"), c.get("demo_place"), c.get("demo_mutant_rc")),
            "go test -vet=off -count=1 %s   # existing tests with the change: rc=%s" % (c.get("existing_tests_pkgs"), c.get("existing_tests_rc")),
            "VERIF_REPO=/tmp/cm-%s ./check %s --tier quick   # rc=%s" % (name, c["property"], c.get("check_rc")),
        ],
        "demo_passes_without_change": c.get("demo_clean_rc") == 0,
        "demo_fails_with_change": c.get("demo_mutant_rc") not in (0, None),
        "builds": c.get("build_rc") == 0,
        "existing_tests_pass_with_change": c.get("existing_tests_rc") == 0,
    },
    "caught_by_check": c.get("check_rc") == 1,
    "check_signatures": [s.replace("sig=", "") for s in (c.get("check_sigs") or "").split(",") if s],
}
if "also_checks" in c:
    meta["also_checks"] = c["also_checks"]
json.dump(meta, open(os.path.join(d, "meta.json"), "w"), indent=1)
print(name, "caught" if meta["caught_by_check"] else "MISSED", meta["check_signatures"])
